package main

// Engine wedge — "finished or abandoned calls never disable a node" (C09).  Workload
// phases of concurrent and sequential calls of all types with random cancellation
// instants, slow quorum functions, slow or releasing handlers and (between phases)
// server restarts; after each phase a probe RPC with a fresh context to every node must
// succeed within a generous bound.  A failed probe is diagnosed from the goroutine dump:
// the two signatures that are the known findings of C09 are reported as such (and the
// shard is replaced); anything else is a violation, with the signatures as the detail.
// Two dedicated replays reproduce the known findings deliberately, so that the check can
// tell whether they are still present.

import (
	"context"
	"fmt"
	"math/rand"
	"strings"
	"sync"
	"time"

	"verifhx/puppet"

	"github.com/relab/gorums"
	"github.com/relab/gorums/cmd/protoc-gen-gorums/dev"
)

func init() { engines["wedge"] = wedgeMain }

func wedgeMain(args []string) {
	cf := commonFlags("wedge", args, nil)
	start := time.Now()
	sum := newSum("wedge", cf.seed, "phases = 30..150 calls of mixed types from 2..12 goroutines with cancellation instants 0..5 ms (or none), quorum-function latency 0..3 ms, handler latency 0..4 ms, "+
		"a server restart before a third of the phases; one evaluation = one phase followed by a probe of every node; distinct non-trivial = distinct (call kinds used, cancellations?, restart?, probe outcome) tuples; "+
		"plus two deliberate replays of the known findings")
	r := rng(cf.seed, "wedge")
	phases := cf.count
	var mu sync.Mutex
	done := 0
	if cf.replay == "" {
		// first: the goroutine diagnoser looks at the whole process, and this scenario must not be judged by what
		// the deliberate replays of the known findings leave behind
		done += blockedWriteScenario(sum)
	}
	seeds := make(chan int64, phases)
	for i := 0; i < phases; i++ {
		seeds <- r.Int63()
	}
	close(seeds)
	shards := cf.shards
	if shards > 4 {
		shards = 4
	}
	if shards > phases {
		shards = phases
	}
	var wg sync.WaitGroup
	for s := 0; s < shards; s++ {
		wg.Add(1)
		go func() {
			defer wg.Done()
			var sh *shard
			for seed := range seeds {
				if sum.tooMany() {
					continue
				}
				if sh == nil || sh.dead {
					if sh != nil {
						old := sh
						go old.close()
					}
					var err error
					sh, err = newShard(3)
					if err != nil {
						fatal(err)
					}
				}
				wedgePhase(sh, rand.New(rand.NewSource(seed)), sum)
				mu.Lock()
				done++
				mu.Unlock()
			}
			if sh != nil {
				go sh.close()
			}
		}()
	}
	wg.Wait()
	// deliberate replays of the known findings (sequential, fresh shards)
	if cf.replay == "" {
		abandonedBeforeSend(sum, cf.seed)
		replayBackpressure(sum)
		already := false
		sum.mu.Lock()
		for _, k := range sum.Known {
			if k == "C09:stale-broken" {
				already = true
			}
		}
		sum.mu.Unlock()
		if !already {
			replayStaleBroken(sum, cf.tier == "thorough")
		}
	}
	sum.Cases = done
	sum.finish(start, cf.out)
}

// probeAll probes every node; returns the ids that did not answer within the bound.
func probeAll(sh *shard, bound time.Duration) []uint32 {
	var bad []uint32
	for _, nd := range sh.all.Nodes() {
		nd := nd
		if !waitFor(bound, func() bool { return probe(nd, 400*time.Millisecond) }) {
			bad = append(bad, nd.ID())
		}
	}
	return bad
}

func wedgePhase(sh *shard, r *rand.Rand, sum *sumT) {
	restart := r.Intn(3) == 0
	cancels := r.Intn(3) != 0
	g := 2 + r.Intn(11)
	calls := 30 + r.Intn(121)
	qfLat := time.Duration(r.Intn(3000)) * time.Microsecond
	hLat := r.Intn(4000)
	var hmu sync.Mutex
	hr := rand.New(rand.NewSource(r.Int63()))
	sh.cl.D.KeepLog = false
	sh.cl.D.Default = func(server int, method, val string) *puppet.Script {
		s := puppet.NewScript()
		s.Action = puppet.Reply
		hmu.Lock()
		if hr.Intn(2) == 0 {
			s.Release = "early"
		}
		d := time.Duration(hr.Intn(hLat+1)) * time.Microsecond
		hmu.Unlock()
		if d > 0 {
			gch := make(chan struct{})
			s.Gate = gch
			time.AfterFunc(d, func() { close(gch) })
		}
		if puppet.Info[method].Kind == "stream" {
			s.Stream = []puppet.StreamStep{{Value: 1}} // one message per node: see engine xtalk
		}
		return s
	}
	sh.qs.F = func(method, req string, replies map[uint32]int64) (int64, int, bool, bool) {
		if qfLat > 0 {
			time.Sleep(qfLat)
		}
		return 0, len(replies), len(replies) >= 2, true
	}
	if restart {
		v := r.Intn(sh.n)
		sh.cl.Stop(v)
		time.Sleep(time.Duration(r.Intn(20)) * time.Millisecond)
		if err := sh.cl.Restart(v); err != nil {
			fatal(err)
		}
	}
	kinds := []string{"rpc", "qc", "async", "corr", "mcast", "ucast", "qcpn"}
	used := map[string]bool{}
	var umu sync.Mutex
	var wg sync.WaitGroup
	seeds := make([]int64, g)
	for i := range seeds {
		seeds[i] = r.Int63()
	}
	for gi := 0; gi < g; gi++ {
		wg.Add(1)
		go func(gi int) {
			defer wg.Done()
			gr := rand.New(rand.NewSource(seeds[gi]))
			for k := 0; k < calls/g; k++ {
				kind := kinds[gr.Intn(len(kinds))]
				umu.Lock()
				used[kind] = true
				umu.Unlock()
				ctx, cancel := context.WithTimeout(context.Background(), 2*time.Second)
				if cancels && gr.Intn(2) == 0 {
					time.AfterFunc(time.Duration(gr.Intn(5000))*time.Microsecond, cancel)
				}
				req := &dev.Request{Value: fmt.Sprintf("w%d-%d|%s", gi, k, kind)}
				node := sh.node(uint32(1 + gr.Intn(sh.n)))
				func() {
					defer func() { recover() }()
					switch kind {
					case "rpc":
						node.GRPCCall(ctx, req)
					case "qc":
						sh.all.QuorumCall(ctx, req)
					case "qcpn":
						sh.all.QuorumCallPerNodeArg(ctx, req, func(rq *dev.Request, nid uint32) *dev.Request {
							if nid == 2 {
								return nil
							}
							return rq
						})
					case "async":
						sh.all.QuorumCallAsync(ctx, req).Get()
					case "corr":
						c := sh.all.Correctable(ctx, req)
						<-c.Done()
					case "mcast":
						sh.all.Multicast(ctx, req)
					case "ucast":
						node.Unicast(ctx, req, gorums.WithNoSendWaiting())
					}
				}()
				cancel()
			}
		}(gi)
	}
	fin := make(chan struct{})
	go func() { wg.Wait(); close(fin) }()
	outcome := "ok"
	select {
	case <-fin:
	case <-time.After(20 * time.Second):
		outcome = "calls-stuck"
	}
	var bad []uint32
	if outcome == "ok" {
		bad = probeAll(sh, 4*time.Second)
		if len(bad) > 0 {
			outcome = "probe-failed"
		}
	}
	if outcome != "ok" {
		w := diagnose()
		if w.id != "" {
			sum.known("C09:" + w.id)
			sum.count("phase-ended-in-known-wedge:" + w.id)
			outcome = w.id
		} else {
			sum.mismatch(Mismatch{Property: "C09", Case: fmt.Sprintf("wedge phase goroutines=%d calls=%d cancels=%v restart=%v kinds=%v", g, calls, cancels, restart, keysS(used)),
				Expected: "every node answers a probe RPC with a fresh context after the phase", Observed: fmt.Sprintf("%s (nodes %v)", outcome, bad), Detail: strings.Join(signatures(w.dump), "; ")})
		}
		sh.dead = true
	}
	sum.count("phases")
	sum.nontrivial(fmt.Sprintf("%v/%v/%v/%s", keysS(used), cancels, restart, outcome))
	sum.sample(fmt.Sprintf("phase goroutines=%d calls=%d cancels=%v restart=%v => %s", g, calls, cancels, restart, outcome))
}

func keysS(m map[string]bool) string {
	var l []string
	for k := range m {
		l = append(l, k)
	}
	// order-insensitive rendering
	for i := range l {
		for j := i + 1; j < len(l); j++ {
			if l[j] < l[i] {
				l[i], l[j] = l[j], l[i]
			}
		}
	}
	return strings.Join(l, "+")
}

// abandonedBeforeSend: calls whose context has already ended when they are made (RPCs, quorum calls, one-way calls),
// in bursts, on healthy idle nodes; then the nodes are left idle for a moment and probed.  No stream fails in this
// workload (nothing is cancelled during a write, no server stops), so the known wedges of C09, which need a stream
// failure, have no legitimate cause here: a node that does not answer afterwards is a violation whatever the shape.
func abandonedBeforeSend(sum *sumT, seed int64) {
	r := rand.New(rand.NewSource(seed + 4242))
	for round := 0; round < 3; round++ {
		sh, err := newShard(3, gorums.WithSendBufferSize([]uint{0, 0, 4}[round%3]))
		if err != nil {
			fatal(err)
		}
		sh.cl.D.KeepLog = false
		sh.cl.D.Default = func(server int, method, val string) *puppet.Script {
			s := puppet.NewScript()
			s.Action = puppet.Reply
			s.Release = "early"
			return s
		}
		sh.qs.F = func(method, req string, replies map[uint32]int64) (int64, int, bool, bool) {
			return 0, len(replies), len(replies) >= 3, true
		}
		dead, cancel := context.WithCancel(context.Background())
		cancel()
		n := 40 + r.Intn(60)
		for i := 0; i < n; i++ {
			req := &dev.Request{Value: fmt.Sprintf("abs%d|0|x", i)}
			done := make(chan struct{})
			go func() {
				defer close(done)
				defer func() { recover() }()
				switch i % 4 {
				case 0, 1:
					sh.node(uint32(1+i%3)).GRPCCall(dead, req)
				case 2:
					sh.all.QuorumCall(dead, req)
				case 3:
					sh.all.Multicast(dead, req)
				}
			}()
			select {
			case <-done:
			case <-time.After(3 * time.Second):
				w := diagnose()
				sum.mismatch(Mismatch{Property: "C09", Case: fmt.Sprintf("abandoned-before-send round=%d call %d of %d", round, i, n), Expected: "a call whose context has already ended returns at once",
					Observed: "still running after 3 s (goroutine signature: " + w.id + ")", Detail: strings.Join(signatures(w.dump), "; ")})
				go sh.close()
				return
			}
		}
		time.Sleep(30 * time.Millisecond) // the nodes are idle now
		if bad := probeAll(sh, 3*time.Second); len(bad) > 0 {
			w := diagnose()
			sum.mismatch(Mismatch{Property: "C09", Case: fmt.Sprintf("abandoned-before-send round=%d: %d calls made with an already-ended context on healthy idle nodes, then a probe RPC", round, n),
				Expected: "every node answers a probe RPC with a fresh context", Observed: fmt.Sprintf("nodes %v do not answer (goroutine signature: %s)", bad, w.id), Detail: strings.Join(signatures(w.dump), "; ")})
			go sh.close()
			return
		}
		sum.count("abandoned-before-send:ok")
		go sh.close()
	}
}

// replayBackpressure: a server-stream call whose quorum function says done on the first reply while every
// server streams five replies (known finding C09/stream-backpressure).
func replayBackpressure(sum *sumT) {
	sh, err := newShard(3)
	if err != nil {
		fatal(err)
	}
	defer func() { go sh.close() }()
	sh.cl.D.KeepLog = false
	sh.cl.D.Default = func(server int, method, val string) *puppet.Script {
		s := puppet.NewScript()
		s.Action = puppet.Reply
		s.Release = "early"
		if puppet.Info[method].Kind == "stream" {
			for i := 0; i < 5; i++ {
				s.Stream = append(s.Stream, puppet.StreamStep{Value: int64(i)})
			}
		}
		return s
	}
	sh.qs.F = func(method, req string, replies map[uint32]int64) (int64, int, bool, bool) { return 0, 1, true, true }
	hit := false
	for round := 0; round < 5 && !hit; round++ {
		ctx, cancel := context.WithTimeout(context.Background(), time.Second)
		c := sh.all.CorrectableStream(ctx, &dev.Request{Value: "bp|0|x"})
		<-c.Done()
		cancel()
		time.Sleep(30 * time.Millisecond)
		if bad := probeAll(sh, 1500*time.Millisecond); len(bad) > 0 {
			if w := diagnose(); w.id == "stream-backpressure" {
				hit = true
			} else {
				sum.mismatch(Mismatch{Property: "C09", Case: "replay stream-backpressure", Expected: "probe succeeds or the known signature", Observed: fmt.Sprintf("nodes %v fail with another signature (%s)", bad, w.id), Detail: strings.Join(signatures(w.dump), "; ")})
				return
			}
		}
	}
	if hit {
		sum.known("C09:stream-backpressure")
		sum.count("replay:stream-backpressure:reproduced")
	} else {
		sum.count("replay:stream-backpressure:not-reproduced")
	}
}

// replayStaleBroken: restart a server and issue RPCs while the receiver reconnects (known finding C09/stale-broken).
func replayStaleBroken(sum *sumT, long bool) {
	rounds := 5
	if long {
		rounds = 60
	}
	for round := 0; round < rounds; round++ {
		sh, err := newShard(2)
		if err != nil {
			fatal(err)
		}
		sh.cl.D.KeepLog = false
		hit := false
		for k := 0; k < 6 && !hit; k++ {
			sh.cl.Stop(0)
			if err := sh.cl.Restart(0); err != nil {
				fatal(err)
			}
			node := sh.node(1)
			deadline := time.Now().Add(400 * time.Millisecond)
			for time.Now().Before(deadline) {
				probe(node, 50*time.Millisecond)
			}
			if !waitFor(2*time.Second, func() bool { return probe(node, 300*time.Millisecond) }) {
				if w := diagnose(); w.id == "stale-broken" {
					hit = true
				} else if w.id == "" {
					sum.mismatch(Mismatch{Property: "C09", Case: "replay stale-broken", Expected: "the restarted node answers again or the known signature", Observed: "node does not answer; unknown signature", Detail: strings.Join(signatures(w.dump), "; ")})
					go sh.close()
					return
				}
			}
		}
		go sh.close()
		if hit {
			sum.known("C09:stale-broken")
			sum.count("replay:stale-broken:reproduced")
			return
		}
	}
	sum.count("replay:stale-broken:not-reproduced")
}
