package main

import (
	"context"
	"errors"
	"fmt"
	"time"

	"verifhx/puppet"

	"github.com/relab/gorums"
	"github.com/relab/gorums/cmd/protoc-gen-gorums/dev"
	"google.golang.org/grpc"
	"google.golang.org/grpc/backoff"
	"google.golang.org/grpc/credentials/insecure"
)

// flapScenario (C07: "a waiting call is completed when the connection breaks" / every failing node is reported): a node
// that flaps inside one back-off sleep of its receiver.  The server goes away and comes back; the receiver's attempts
// to re-create the stream fail and it sleeps (the second sleep is long); a request makes the sender re-create the
// stream, and call X (long deadline, handler silent) is written to it; the server goes away again before it answers;
// one more request fails to be written, which marks the stream broken; then nothing else is sent.  When the receiver
// wakes it replaces the stream, and whoever replaces a stream answers the requests written to it: X must complete
// with an error for the node soon after — not at its deadline.
func flapScenario(sum *sumT) {
	cl, err := puppet.NewCluster(1)
	if err != nil {
		fatal(err)
	}
	defer cl.Close()
	silent := make(chan struct{})
	defer close(silent)
	cl.D.KeepLog = false
	cl.D.Default = func(server int, method, val string) *puppet.Script {
		s := puppet.NewScript()
		s.Action = puppet.Reply
		s.Release = "early"
		if len(val) >= 4 && val[:4] == "fl|x" {
			s.Gate = silent // call X is not answered
		}
		return s
	}
	// sleeps of the receiver: ~1 s (0.6 .. 1.4), then min(10 s, 5 s) x (0.6 .. 1.4) = 3 .. 7 s
	mgr := dev.NewManager(gorums.WithDialTimeout(time.Second),
		gorums.WithBackoff(backoff.Config{BaseDelay: time.Second, Multiplier: 10, Jitter: 0.4, MaxDelay: 5 * time.Second}),
		gorums.WithGrpcDialOptions(grpc.WithTransportCredentials(insecure.NewCredentials())))
	defer mgr.Close()
	qs := &puppet.QSpec{}
	qs.F = func(method, req string, replies map[uint32]int64) (int64, int, bool, bool) {
		return 0, len(replies), true, true
	}
	cfg, err := mgr.NewConfiguration(qs, gorums.WithNodeMap(map[string]uint32{cl.Addrs[0]: 1}))
	if err != nil {
		sum.count("flap:setup-failed")
		return
	}
	node := cfg.Nodes()[0]
	rpc := func(ctx context.Context, val string, guard time.Duration) error {
		done := make(chan error, 1)
		go func() {
			defer func() {
				if p := recover(); p != nil {
					done <- fmt.Errorf("panic: %v", p)
				}
			}()
			_, err := node.GRPCCall(ctx, &dev.Request{Value: val})
			done <- err
		}()
		select {
		case err := <-done:
			return err
		case <-time.After(guard):
			return errStuck
		}
	}
	call := func(timeout time.Duration) error {
		ctx, cancel := context.WithTimeout(context.Background(), timeout)
		defer cancel()
		return rpc(ctx, "fl|probe", timeout+3*time.Second)
	}
	healthy := func() bool { return waitFor(40*time.Second, func() bool { return call(time.Second) == nil }) }
	if !healthy() {
		sum.count("flap:never-healthy")
		return
	}
	staged := false
	for round := 0; round < 8 && !staged; round++ {
		cl.Stop(0)
		time.Sleep(100 * time.Millisecond)
		if err := cl.Restart(0); err != nil {
			sum.count("flap:restart-failed")
			return
		}
		time.Sleep(1200 * time.Millisecond)
		err := call(700 * time.Millisecond)
		switch {
		case err == nil:
			sum.count("flap:round-receiver-reconnected-itself")
		case errors.Is(err, context.DeadlineExceeded):
			staged = true // written to the sender's new stream, reply unread: the receiver is asleep
		default:
			sum.count("flap:round-probe-failed")
			if !healthy() {
				return
			}
		}
	}
	if !staged {
		sum.count("flap:not-staged")
		return
	}
	// X: written to the stream the sender re-created
	xctx, xcancel := context.WithTimeout(context.Background(), 25*time.Second)
	defer xcancel()
	xdone := make(chan error, 1)
	go func() { xdone <- rpc(xctx, "fl|x", 40*time.Second) }()
	time.Sleep(200 * time.Millisecond)
	cl.Stop(0) // the node goes away again before it answers
	crashed := time.Now()
	time.Sleep(100 * time.Millisecond)
	_ = call(300 * time.Millisecond) // one more request: its write fails, the stream is marked broken
	sum.count("flap:staged")
	sum.nontrivial("flap/staged")
	select {
	case err := <-xdone:
		switch {
		case err == nil:
			sum.mismatch(Mismatch{Property: "C07", Case: "flap (node down, back, down again inside one back-off sleep of its receiver; call X written to the stream the sender re-created)",
				Expected: "X fails: its node went away before answering", Observed: "X succeeded"})
		case errors.Is(err, errStuck):
			sum.count("flap:x-stuck")
		default:
			sum.count("flap:x-completed-after-" + time.Since(crashed).Round(time.Second).String())
		}
	case <-time.After(12 * time.Second):
		// the receiver's sleep is at most 7 s
		w := diagnose()
		if w.id != "" {
			sum.known("C09:" + w.id)
			return
		}
		sum.mismatch(Mismatch{Property: "C07", Case: "flap (node down, back, down again inside one back-off sleep of its receiver; call X written to the stream the sender re-created; one later request failed to be written)",
			Expected: "X completes with an error for the node once the receiver has woken and replaced the stream (its sleep is at most 7 s)", Observed: "X still waiting 12 s after the node went away"})
	}
}

var errStuck = errors.New("call stuck")
