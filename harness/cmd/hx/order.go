package main

// Engine order — per-node FIFO across mixed call types (C03).  A program is a random
// sequence of calls of all types (RPC, quorum call, async, correctable, multicast and
// unicast with and without send-waiting, per-node variants) issued from one goroutine
// (or from goroutines chained by channels), with quorum sizes below the configuration
// size and slow servers, so that stragglers of earlier calls are still queued when the
// next call is issued; some requests carry large payloads so that flow control stalls the
// per-node sender and the send buffer fills.  Every server records the issue serial of
// every handler start per connection; the Lean model decides whether the start order is
// a duplicate-free subsequence of the issue order (and complete, when nothing was cancelled).

import (
	"context"
	"fmt"
	"math/rand"
	"os"
	"sort"
	"strconv"
	"strings"
	"sync"
	"time"

	"verifhx/puppet"

	"github.com/relab/gorums"
	"github.com/relab/gorums/cmd/protoc-gen-gorums/dev"
)

func init() { engines["order"] = orderMain }

func orderMain(args []string) {
	cf := commonFlags("order", args, nil)
	start := time.Now()
	sum := newSum("order", cf.seed, "cases = programs of 5..60 mixed calls over 3..5 nodes with send buffer in {0,1,4,64}, quorum below the configuration size, 1..2 slow servers, payload padding up to 48 KiB, "+
		"issued from one goroutine or from goroutines chained by channels; one evaluation = one (program, node) pair checked by the Lean model; "+
		"distinct non-trivial = distinct (send buffer, #call kinds used, has no-send-waiting, has large payload, max backlog bucket, chained goroutines) tuples with a backlog of at least 2 queued stragglers")
	r := rng(cf.seed, "order")
	nCases := cf.count
	seeds := make([]int64, nCases)
	for i := range seeds {
		seeds[i] = r.Int63()
	}
	type evalT struct {
		id, line, descr string
	}
	var evals []evalT
	var mu sync.Mutex
	var wg sync.WaitGroup
	ch := make(chan int)
	shards := cf.shards
	if shards > nCases {
		shards = nCases
	}
	for s := 0; s < shards; s++ {
		wg.Add(1)
		go func() {
			defer wg.Done()
			for caseNo := range ch {
				if sum.tooMany() {
					continue
				}
				res := runOrderCase(caseNo, rand.New(rand.NewSource(seeds[caseNo])), sum)
				mu.Lock()
				for _, e := range res {
					id := strconv.Itoa(len(evals))
					evals = append(evals, evalT{id: id, line: strings.Replace(e[0], "id=?", "id="+id, 1), descr: e[1]})
				}
				mu.Unlock()
			}
		}()
	}
	for i := 0; i < nCases; i++ {
		ch <- i
	}
	close(ch)
	wg.Wait()
	var lines []string
	if cf.replay != "" {
		for i, l := range readLines(cf.replay) {
			evals = append(evals, evalT{id: strconv.Itoa(i), line: l})
		}
	}
	for _, e := range evals {
		lines = append(lines, e.line)
	}
	exp, err := askDriver(cf.driver, "order", lines)
	if err != nil {
		fatal(err)
	}
	for _, e := range evals {
		x := exp[e.id]
		if cf.replay != "" {
			fmt.Println(e.line, "=>", x)
		}
		if x != "ok" {
			sum.mismatch(Mismatch{Property: "C03", Case: e.line, Expected: "start order is a duplicate-free subsequence of the issue order (complete when calm)", Observed: x, Detail: e.descr})
		}
		if len(e.line) < 400 {
			sum.sample(e.line + " => " + x)
		}
	}
	sum.Cases = len(evals)
	sum.finish(start, cf.out)
}

// runOrderCase executes one program and returns (model line, description) per node.
func runOrderCase(caseNo int, r *rand.Rand, sum *sumT) [][2]string {
	n := 3 + r.Intn(3)
	buf := []uint{0, 1, 4, 64}[r.Intn(4)]
	sh, err := newShard(n, gorums.WithSendBufferSize(buf))
	if err != nil {
		fatal(err)
	}
	defer sh.close()
	slow := map[int]bool{r.Intn(n): true}
	if r.Intn(2) == 0 {
		slow[r.Intn(n)] = true
	}
	maxDelay := []int{200, 1000, 3000}[r.Intn(3)] // microseconds
	var hmu sync.Mutex
	hr := rand.New(rand.NewSource(r.Int63()))
	sh.cl.D.Default = func(server int, method, val string) *puppet.Script {
		s := puppet.NewScript()
		s.Action = puppet.Reply
		hmu.Lock()
		if hr.Intn(3) == 0 {
			s.Release = "early" // the handler releases the connection explicitly (and again, implicitly, when it returns)
		}
		hmu.Unlock()
		if slow[server] {
			hmu.Lock()
			d := time.Duration(hr.Intn(maxDelay)) * time.Microsecond
			hmu.Unlock()
			g := make(chan struct{})
			s.Gate = g
			time.AfterFunc(d, func() { close(g) })
		}
		return s
	}
	// quorum functions: threshold below the configuration size
	sh.qs.F = func(method, req string, replies map[uint32]int64) (int64, int, bool, bool) {
		need := 1
		if i := strings.LastIndex(req, "|q"); i >= 0 {
			need, _ = strconv.Atoi(strings.SplitN(req[i+2:], "|", 2)[0])
		}
		return 0, len(replies), len(replies) >= need, true
	}
	nCalls := 5 + r.Intn(56)
	kinds := []string{"rpc", "qc", "async", "corr", "mcast", "mcast-nsw", "ucast", "ucast-nsw", "qc-pn", "mcast-pn", "async-pn"}
	pushed := make([][]int, n) // per server: issue serials handed to it, in issue order
	usedKinds := map[string]bool{}
	hasNSW, hasBig := false, false
	chained := r.Intn(3) == 0
	ctx := context.Background()
	var futs []func()
	issue := func(serial int) {
		kind := kinds[r.Intn(len(kinds))]
		usedKinds[kind] = true
		// configuration: a random subset of at least 2 nodes (or all)
		var ids []uint32
		for i := 0; i < n; i++ {
			if r.Intn(4) != 0 {
				ids = append(ids, uint32(i+1))
			}
		}
		if len(ids) < 2 {
			ids = []uint32{1, 2}
		}
		cfg, err := sh.config(ids)
		if err != nil {
			fatal(err)
		}
		pad := ""
		switch r.Intn(12) {
		case 0:
			pad = strings.Repeat("x", 1024)
		case 1:
			pad = strings.Repeat("y", 48*1024)
			hasBig = true
		}
		quorum := 1 + r.Intn(len(ids))
		if quorum == len(ids) && len(ids) > 1 {
			quorum--
		}
		val := fmt.Sprintf("o%d|%d|q%d|%s", caseNo, serial, quorum, pad)
		req := &dev.Request{Value: val}
		skip := map[uint32]bool{}
		if strings.HasSuffix(kind, "-pn") {
			for _, id := range ids {
				if r.Intn(4) == 0 {
					skip[id] = true
				}
			}
		}
		pn := func(rq *dev.Request, nid uint32) *dev.Request {
			if skip[nid] {
				return nil
			}
			return &dev.Request{Value: val}
		}
		target := func(ids []uint32) {
			for _, id := range ids {
				if !skip[id] {
					pushed[id-1] = append(pushed[id-1], serial)
				}
			}
		}
		switch kind {
		case "rpc":
			id := ids[r.Intn(len(ids))]
			target([]uint32{id})
			// an RPC blocks until answered: on a slow node that is fine (bounded delay)
			if _, err := sh.node(id).GRPCCall(ctx, req); err != nil && os.Getenv("HX_DEBUG") != "" {
				fmt.Fprintf(os.Stderr, "DEBUG case=%d serial=%d rpc node=%d err=%v\n", caseNo, serial, id, err)
			}
		case "qc":
			target(ids)
			if _, err := cfg.QuorumCall(ctx, req); err != nil && os.Getenv("HX_DEBUG") != "" {
				fmt.Fprintf(os.Stderr, "DEBUG case=%d serial=%d qc err=%s\n", caseNo, serial, strings.ReplaceAll(err.Error(), "\n", "/"))
			}
		case "qc-pn":
			target(ids)
			_, _ = cfg.QuorumCallPerNodeArg(ctx, req, pn)
		case "async":
			target(ids)
			f := cfg.QuorumCallAsync(ctx, req)
			futs = append(futs, func() { f.Get() })
		case "async-pn":
			target(ids)
			f := cfg.QuorumCallAsyncPerNodeArg(ctx, req, pn)
			futs = append(futs, func() { f.Get() })
		case "corr":
			target(ids)
			c := cfg.Correctable(ctx, req)
			futs = append(futs, func() { <-c.Done() })
		case "mcast":
			target(ids)
			cfg.Multicast(ctx, req)
		case "mcast-pn":
			target(ids)
			cfg.MulticastPerNodeArg(ctx, req, pn)
		case "mcast-nsw":
			hasNSW = true
			target(ids)
			cfg.Multicast(ctx, req, gorums.WithNoSendWaiting())
		case "ucast":
			id := ids[r.Intn(len(ids))]
			target([]uint32{id})
			sh.node(id).Unicast(ctx, req)
		case "ucast-nsw":
			hasNSW = true
			id := ids[r.Intn(len(ids))]
			target([]uint32{id})
			sh.node(id).Unicast(ctx, req, gorums.WithNoSendWaiting())
		}
	}
	done := make(chan struct{})
	go func() {
		defer close(done)
		if !chained {
			for s := 1; s <= nCalls; s++ {
				issue(s)
			}
			return
		}
		// goroutines ordered by happens-before: each call is issued by a fresh goroutine that is
		// started only after the previous one has finished issuing
		for s := 1; s <= nCalls; s++ {
			c := make(chan struct{})
			go func() { issue(s); close(c) }()
			<-c
		}
	}()
	select {
	case <-done:
	case <-time.After(60 * time.Second):
		sum.mismatch(Mismatch{Property: "C03", Case: fmt.Sprintf("order case=%d", caseNo), Expected: "program completes", Observed: "stuck for 60s", Detail: strings.Join(signatures(goroutineDump()), "; ")})
		return nil
	}
	// wait until every targeted (server, call) pair has been handled
	want := 0
	for _, p := range pushed {
		want += len(p)
	}
	complete := waitFor(20*time.Second, func() bool {
		c := 0
		for _, e := range sh.cl.D.Events() {
			if e.Phase == "enter" {
				c++
			}
		}
		return c >= want
	})
	for _, f := range futs {
		f()
	}
	// per server and connection: issue serials of handler starts
	started := make([][]int, n)
	conns := make([]map[int]bool, n)
	backlog := 0
	for i := range conns {
		conns[i] = map[int]bool{}
	}
	for _, e := range sh.cl.D.Events() {
		if e.Phase == "DUPLICATE" {
			sum.mismatch(Mismatch{Property: "C03", Case: fmt.Sprintf("order case=%d", caseNo), Expected: "one handler start per call and node", Observed: "duplicate start", Detail: trunc(e.Value)})
		}
		if e.Phase != "enter" {
			continue
		}
		p := strings.SplitN(e.Value, "|", 3)
		if len(p) < 2 {
			continue
		}
		ser, _ := strconv.Atoi(p[1])
		started[e.Server] = append(started[e.Server], ser)
		conns[e.Server][e.Conn] = true
	}
	if !complete {
		d := wedgeNote()
		if d != "" {
			sum.known("C09:" + d)
			return nil
		}
	}
	ints := func(l []int) string {
		s := make([]string, len(l))
		for i, x := range l {
			s[i] = strconv.Itoa(x)
		}
		return joinOrDash(s, ",")
	}
	var out [][2]string
	descr := fmt.Sprintf("case=%d nodes=%d sendbuf=%d slow=%v calls=%d chained=%v", caseNo, n, buf, keys(slow), nCalls, chained)
	for i := 0; i < n; i++ {
		if len(conns[i]) > 1 {
			// a reconnection happened: the claim is per connection; skip the completeness claim
			continue
		}
		// backlog estimate: how far the start order lags (number of distinct serials)
		if len(pushed[i]) > backlog {
			backlog = len(pushed[i])
		}
		out = append(out, [2]string{fmt.Sprintf("order id=? pushed=%s started=%s calm=1", ints(pushed[i]), ints(started[i])), descr + fmt.Sprintf(" node=%d", i+1)})
	}
	sum.count(fmt.Sprintf("sendbuf:%d", buf))
	if chained {
		sum.count("chained-goroutines")
	}
	for k := range usedKinds {
		sum.count("kind:" + k)
	}
	sum.nontrivial(fmt.Sprintf("%d/%d/%v/%v/%d/%v", buf, len(usedKinds), hasNSW, hasBig, backlog/10, chained))
	return out
}

func keys(m map[int]bool) []int {
	var l []int
	for k := range m {
		l = append(l, k)
	}
	sort.Ints(l)
	return l
}

// wedgeNote returns the id of a known wedge visible in the goroutine dump, or "".
func wedgeNote() string { return diagnose().id }
