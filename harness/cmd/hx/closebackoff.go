package main

import (
	"context"
	"errors"
	"fmt"
	"time"

	"verifhx/puppet"

	"github.com/relab/gorums"
	"github.com/relab/gorums/cmd/protoc-gen-gorums/dev"
	"google.golang.org/grpc"
	"google.golang.org/grpc/backoff"
	"google.golang.org/grpc/credentials/insecure"
)

// closeDuringBackoff (C12): Close strikes while a node is *reconnecting*: its server went away and came back, the
// receiver's own attempt to re-create the stream failed and it sleeps in a long back-off, a later request made the
// sender re-create the stream, and a call without deadline has been written to that stream and awaits its reply
// (which nobody reads before the receiver wakes: the staging is recognised by exactly that, a probe whose reply is
// not read within its budget — the known finding C10/reply-waits-for-backoff-timer).  Close must complete that call.
func closeDuringBackoff(sum *sumT) {
	cl, err := puppet.NewCluster(1)
	if err != nil {
		fatal(err)
	}
	defer cl.Close()
	cl.D.KeepLog = false
	cl.D.Default = func(server int, method, val string) *puppet.Script {
		s := puppet.NewScript()
		s.Action = puppet.Reply
		s.Release = "early"
		return s
	}
	mgr := dev.NewManager(gorums.WithDialTimeout(time.Second),
		gorums.WithBackoff(backoff.Config{BaseDelay: time.Second, Multiplier: 10, Jitter: 0.4, MaxDelay: 20 * time.Second}),
		gorums.WithGrpcDialOptions(grpc.WithTransportCredentials(insecure.NewCredentials())))
	closed := false
	defer func() {
		if !closed {
			mgr.Close()
		}
	}()
	qs := &puppet.QSpec{}
	qs.F = func(method, req string, replies map[uint32]int64) (int64, int, bool, bool) {
		return 0, len(replies), true, true
	}
	cfg, err := mgr.NewConfiguration(qs, gorums.WithNodeMap(map[string]uint32{cl.Addrs[0]: 1}))
	if err != nil {
		sum.count("close-backoff:setup-failed")
		return
	}
	node := cfg.Nodes()[0]
	call := func(timeout time.Duration) error {
		ctx, cancel := context.WithTimeout(context.Background(), timeout)
		defer cancel()
		done := make(chan error, 1)
		go func() {
			defer func() {
				if p := recover(); p != nil {
					done <- fmt.Errorf("panic: %v", p)
				}
			}()
			_, err := node.GRPCCall(ctx, &dev.Request{Value: "cb|probe"})
			done <- err
		}()
		select {
		case err := <-done:
			return err
		case <-time.After(timeout + 3*time.Second):
			return errors.New("probe stuck")
		}
	}
	healthy := func() bool {
		return waitFor(40*time.Second, func() bool { return call(time.Second) == nil })
	}
	if !healthy() {
		sum.count("close-backoff:never-healthy")
		return
	}
	staged := false
	for round := 0; round < 8 && !staged; round++ {
		cl.Stop(0)
		time.Sleep(100 * time.Millisecond) // the receiver's and gRPC's first attempts are refused
		if err := cl.Restart(0); err != nil {
			sum.count("close-backoff:restart-failed")
			return
		}
		time.Sleep(1200 * time.Millisecond) // gRPC re-dials one BaseDelay after its refused attempt; a receiver that woke before that sleeps ten times longer now
		err := call(700 * time.Millisecond)
		switch {
		case err == nil:
			sum.count("close-backoff:round-receiver-reconnected-itself")
		case errors.Is(err, context.DeadlineExceeded):
			staged = true // written to the sender's new stream, reply unread: the receiver is asleep
		default:
			sum.count("close-backoff:round-probe-failed")
			if !healthy() {
				return
			}
		}
	}
	if !staged {
		sum.count("close-backoff:not-staged")
		return
	}
	done := make(chan error, 1)
	go func() {
		defer func() {
			if p := recover(); p != nil {
				done <- fmt.Errorf("panic: %v", p)
			}
		}()
		_, err := node.GRPCCall(context.Background(), &dev.Request{Value: "cb|pending"})
		done <- err
	}()
	time.Sleep(200 * time.Millisecond)
	select {
	case <-done:
		sum.count("close-backoff:call-returned-before-close")
		return
	default:
	}
	mgr.Close()
	closed = true
	sum.count("close-backoff:staged")
	sum.nontrivial("close-backoff/staged")
	select {
	case <-done:
	case <-time.After(3 * time.Second):
		w := diagnose()
		sum.mismatch(Mismatch{Property: "C12", Case: "close node-state=reconnecting (server restarted, receiver asleep in its back-off, request written to the stream the sender re-created) mode=once calls=1",
			Expected: "the call in progress returns within 3 s of Close", Observed: "still waiting (goroutine signature: " + w.id + ")"})
	}
}
