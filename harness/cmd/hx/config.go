package main

// Engine cfg — exact correspondence of configuration building (node list / map /
// IDs, And, Except, WithoutNodes, WithNewNodes, through the raw API and through the
// generated dev.Manager) with the Lean model, op sequence by op sequence, on
// WithNoConnect managers.  After every operation every live configuration and the
// pool are dumped, so a constructor that modifies an operand shows up.  Serves C14.

import (
	"fmt"
	"math/rand"
	"sort"
	"strconv"
	"strings"
	"time"

	"verifhx/puppet"

	"github.com/relab/gorums"
	"github.com/relab/gorums/cmd/protoc-gen-gorums/dev"
	"hash/fnv"
)

func init() { engines["cfg"] = cfgMain }

func fnv32(s string) uint32 {
	h := fnv.New32a()
	h.Write([]byte(s))
	return h.Sum32()
}

// collisionPairs finds k pairs of distinct canonical addresses with equal FNV-1a hashes.
func collisionPairs(k int) [][2]string {
	seen := map[uint32]string{}
	var out [][2]string
	out = append(out, [2]string{"10.0.1.16:5319", "10.0.2.47:8124"})
	for a := 0; a < 256 && len(out) < k; a++ {
		for b := 1; b < 255 && len(out) < k; b++ {
			for p := 5000; p < 5040; p++ {
				s := fmt.Sprintf("10.1.%d.%d:%d", a, b, p)
				h := fnv32(s)
				if o, ok := seen[h]; ok && o != s {
					out = append(out, [2]string{o, s})
					if len(out) >= k {
						break
					}
				}
				seen[h] = s
			}
		}
	}
	return out
}

type cfgOp struct {
	line string
	run  func(st *cfgState) (gorums.RawConfiguration, error)
}

type cfgState struct {
	raw   *gorums.RawManager
	devm  *dev.Manager
	cfgs  []gorums.RawConfiguration
	snaps [][]*gorums.RawNode
	qs    *puppet.QSpec
}

func showRaw(nodes []*gorums.RawNode) string {
	if len(nodes) == 0 {
		return "-"
	}
	s := make([]string, len(nodes))
	for i, n := range nodes {
		s[i] = fmt.Sprintf("%d@%s", n.ID(), n.Address())
	}
	return strings.Join(s, ",")
}

func cfgMain(args []string) {
	cf := commonFlags("cfg", args, nil)
	start := time.Now()
	sum := newSum("cfg", cf.seed, "cases = operation sequences (length 1..12) over {node list, node map, node IDs, And, Except, WithoutNodes, WithNewNodes} on one manager, over a universe of 30 addresses (IPv4 with 4 FNV-1a collision pairs, IPv6, and link-local IPv6 addresses that differ only in their zone), "+
		"with duplicates, overlapping operands, re-bound IDs, through the raw API and through dev.Manager.NewConfiguration; every operation is one evaluation; "+
		"distinct non-trivial = distinct (op kind, ok/err, has duplicates, has collision or conflict, result size bucket) tuples other than a plain successful creation without duplicates")
	r := rng(cf.seed, "cfg")
	pairs := collisionPairs(4)
	var universe []string
	for _, p := range pairs {
		universe = append(universe, p[0], p[1])
	}
	for i := 0; len(universe) < 24; i++ {
		universe = append(universe, fmt.Sprintf("127.0.%d.%d:%d", i/4, 1+i%4, 9000+i))
	}
	// canonical IPv6 literals; the zone is part of a link-local address: three distinct nodes on one port
	universe = append(universe, "[::1]:9100", "[2001:db8::1]:9101", "[2001:db8::2]:9101", "[fe80::1%eth0]:9102", "[fe80::1%eth1]:9102", "[fe80::1]:9102")
	var lines []string
	type pending struct {
		id    string
		line  string
		obs   string
		notes []string
	}
	var all []pending
	id := 0
	nseq := 0
	genSeq := func() {
		nseq++
		st := &cfgState{qs: &puppet.QSpec{F: func(string, string, map[uint32]int64) (int64, int, bool, bool) { return 0, 0, true, true }}}
		st.raw = gorums.NewRawManager(gorums.WithNoConnect())
		useDev := r.Intn(2) == 0
		if useDev {
			st.devm = dev.NewManager(gorums.WithNoConnect())
			st.raw = st.devm.RawManager
		}
		all = append(all, pending{id: strconv.Itoa(id), line: fmt.Sprintf("cfg id=%d op=new", id), obs: "res=new pool=-"})
		id++
		nops := 1 + r.Intn(12)
		pickAddrs := func() []string {
			n := 1 + r.Intn(5)
			if r.Intn(12) == 0 {
				n = 0
			}
			var l []string
			for i := 0; i < n; i++ {
				l = append(l, universe[r.Intn(len(universe))])
			}
			if n > 1 && r.Intn(4) == 0 {
				l[n-1] = l[0] // duplicate
			}
			if r.Intn(6) == 0 { // collision pair together
				p := pairs[r.Intn(len(pairs))]
				l = append(l, p[0], p[1])
			}
			return l
		}
		for k := 0; k < nops; k++ {
			var line string
			var c gorums.RawConfiguration
			var err error
			mk := func(opt gorums.NodeListOption) (gorums.RawConfiguration, error) {
				if st.devm != nil && r.Intn(2) == 0 {
					dc, err := st.devm.NewConfiguration(opt, st.qs)
					if err != nil {
						return nil, err
					}
					// the generated wrapper must agree with the raw configuration
					if len(dc.Nodes()) != dc.Size() {
						sum.mismatch(Mismatch{Property: "C14", Case: line, Expected: "dev Nodes/Size agree", Observed: fmt.Sprint(len(dc.Nodes()), dc.Size())})
					}
					for i, n := range dc.Nodes() {
						if n.RawNode != dc.RawConfiguration[i] {
							sum.mismatch(Mismatch{Property: "C14", Case: line, Expected: "dev.Node wraps the raw node", Observed: "different object"})
						}
					}
					return dc.RawConfiguration, nil
				}
				return gorums.NewRawConfiguration(st.raw, opt)
			}
			pick := func() int { return r.Intn(len(st.cfgs)) }
			kind := r.Intn(8)
			if len(st.cfgs) == 0 && kind >= 3 {
				kind = r.Intn(3)
			}
			func() {
				defer func() {
					if p := recover(); p != nil {
						err = fmt.Errorf("PANIC %v", p)
						sum.mismatch(Mismatch{Property: "C14", Case: line, Expected: "no panic", Observed: fmt.Sprint(p)})
					}
				}()
				switch kind {
				case 0:
					a := pickAddrs()
					line = fmt.Sprintf("cfg id=%d op=list addrs=%s", id, joinOrDash(a, ";"))
					c, err = mk(gorums.WithNodeList(a))
				case 1:
					n := 1 + r.Intn(4)
					if r.Intn(12) == 0 {
						n = 0
					}
					m := map[string]uint32{}
					var es []string
					for i := 0; i < n; i++ {
						a := universe[r.Intn(len(universe))]
						idv := uint32(1 + r.Intn(8))
						switch r.Intn(8) {
						case 0:
							idv = fnv32(universe[r.Intn(len(universe))])
						case 1:
							if ids := st.raw.NodeIDs(); len(ids) > 0 {
								idv = ids[r.Intn(len(ids))]
							}
						}
						if _, dup := m[a]; dup {
							continue
						}
						m[a] = idv
						es = append(es, fmt.Sprintf("%s~%d", a, idv))
					}
					line = fmt.Sprintf("cfg id=%d op=map m=%s", id, joinOrDash(es, ";"))
					c, err = mk(gorums.WithNodeMap(m))
				case 2:
					var ids []uint32
					pool := st.raw.NodeIDs()
					n := 1 + r.Intn(4)
					if r.Intn(12) == 0 {
						n = 0
					}
					for i := 0; i < n; i++ {
						if len(pool) > 0 && r.Intn(6) != 0 {
							ids = append(ids, pool[r.Intn(len(pool))])
						} else {
							ids = append(ids, uint32(1+r.Intn(8)))
						}
					}
					line = fmt.Sprintf("cfg id=%d op=ids ids=%s", id, joinOrDash(u32s(ids), ";"))
					c, err = mk(gorums.WithNodeIDs(ids))
				case 3, 4:
					a, b := pick(), pick()
					line = fmt.Sprintf("cfg id=%d op=and a=%d b=%d", id, a, b)
					c, err = mk(st.cfgs[a].And(st.cfgs[b]))
				case 5:
					a, b := pick(), pick()
					line = fmt.Sprintf("cfg id=%d op=except a=%d b=%d", id, a, b)
					c, err = mk(st.cfgs[a].Except(st.cfgs[b]))
				case 6:
					a := pick()
					var ids []uint32
					for _, n := range st.cfgs[a] {
						if r.Intn(2) == 0 {
							ids = append(ids, n.ID())
						}
					}
					if r.Intn(3) == 0 {
						ids = append(ids, uint32(1+r.Intn(8)))
					}
					line = fmt.Sprintf("cfg id=%d op=without a=%d ids=%s", id, a, joinOrDash(u32s(ids), ";"))
					c, err = mk(st.cfgs[a].WithoutNodes(ids...))
				case 7:
					a := pick()
					ad := pickAddrs()
					line = fmt.Sprintf("cfg id=%d op=newnodes a=%d addrs=%s", id, a, joinOrDash(ad, ";"))
					c, err = mk(st.cfgs[a].WithNewNodes(gorums.WithNodeList(ad)))
				}
			}()
			p := pending{id: strconv.Itoa(id), line: line}
			id++
			pool := append([]*gorums.RawNode(nil), st.raw.Nodes()...)
			sort.Slice(pool, func(i, j int) bool { return pool[i].ID() < pool[j].ID() })
			if err != nil {
				p.obs = "res=err pool=" + showRaw(pool)
			} else {
				p.obs = "res=ok:" + showRaw(c) + " pool=" + showRaw(pool)
				// oracles on the new configuration
				ids := c.NodeIDs()
				if len(ids) != c.Size() || len(c.Nodes()) != c.Size() || c.Size() == 0 {
					p.notes = append(p.notes, fmt.Sprintf("NodeIDs/Nodes/Size disagree or empty: %d %d %d", len(ids), len(c.Nodes()), c.Size()))
				}
				for i, n := range c {
					if ids[i] != n.ID() {
						p.notes = append(p.notes, "NodeIDs does not match Nodes")
					}
					if i > 0 && c[i-1].ID() >= n.ID() {
						p.notes = append(p.notes, "not strictly sorted by ID")
					}
					if pn, ok := st.raw.Node(n.ID()); !ok || pn != n {
						p.notes = append(p.notes, fmt.Sprintf("node %d is not the pooled object", n.ID()))
					}
				}
				if !c.Equal(c) {
					p.notes = append(p.notes, "Equal is not reflexive")
				}
				st.cfgs = append(st.cfgs, c)
				st.snaps = append(st.snaps, append([]*gorums.RawNode(nil), c...))
			}
			// no aliasing: every earlier configuration is unchanged
			for i, old := range st.cfgs {
				snap := st.snaps[i]
				same := len(old) == len(snap)
				for j := 0; same && j < len(old); j++ {
					same = old[j] == snap[j]
				}
				if !same {
					p.notes = append(p.notes, fmt.Sprintf("configuration #%d was modified by this operation: now %s", i, showRaw(old)))
					st.snaps[i] = append([]*gorums.RawNode(nil), old...)
				}
			}
			// pool: one object per ID
			seen := map[uint32]bool{}
			for _, n := range pool {
				if seen[n.ID()] {
					p.notes = append(p.notes, fmt.Sprintf("two pooled nodes with ID %d", n.ID()))
				}
				seen[n.ID()] = true
			}
			all = append(all, p)
			okS := "ok"
			if err != nil {
				okS = "err"
			}
			sum.count("op:" + strings.Fields(line)[2] + ":" + okS)
			dup := strings.Contains(line, "addrs=") && hasDup(strings.Split(strings.SplitN(line, "addrs=", 2)[1], ";"))
			conflict := err != nil && (kind == 0 || kind == 1 || kind == 7)
			if dup || conflict || err != nil || kind >= 3 {
				sum.nontrivial(fmt.Sprintf("%s/%s/%v/%v/%d", strings.Fields(line)[2], okS, dup, conflict, len(c)/3))
			}
		}
		st.raw.Close()
	}
	if cf.replay != "" {
		// replay: the file holds the op lines of one sequence; re-execute them literally is not
		// possible without the generator state, so the sequence is only re-predicted by the model
		lines = readLines(cf.replay)
		exp, err := askDriver(cf.driver, "cfg", lines)
		if err != nil {
			fatal(err)
		}
		for _, l := range lines {
			fmt.Println(l, "=>", exp[strings.TrimPrefix(strings.Fields(l)[1], "id=")])
		}
		sum.finish(start, cf.out)
		return
	}
	for id < cf.count {
		genSeq()
	}
	for _, p := range all {
		lines = append(lines, p.line)
	}
	exp, err := askDriver(cf.driver, "cfg", lines)
	if err != nil {
		fatal(err)
	}
	// report the first disagreement of each sequence with the sequence prefix as the case
	seqStart := 0
	for i, p := range all {
		if strings.Contains(p.line, "op=new") {
			seqStart = i
		}
		ctx := func() string {
			var l []string
			for _, q := range all[seqStart : i+1] {
				l = append(l, q.line)
			}
			return strings.Join(l, "\n")
		}
		if e := exp[p.id]; e != p.obs {
			sum.mismatch(Mismatch{Property: "C14", Case: ctx(), Expected: e, Observed: p.obs})
		}
		for _, n := range p.notes {
			sum.mismatch(Mismatch{Property: "C14", Case: ctx(), Expected: "property oracle", Observed: n})
		}
		if i%97 == 0 {
			sum.sample(p.line + " => " + exp[p.id])
		}
	}
	sum.count(fmt.Sprintf("sequences:%d", nseq))
	sum.Cases = len(all)
	sum.finish(start, cf.out)
}

func joinOrDash(l []string, sep string) string {
	if len(l) == 0 {
		return "-"
	}
	return strings.Join(l, sep)
}

func u32s(l []uint32) []string {
	s := make([]string, len(l))
	for i, x := range l {
		s[i] = strconv.Itoa(int(x))
	}
	return s
}

func hasDup(l []string) bool {
	m := map[string]bool{}
	for _, x := range l {
		if m[x] {
			return true
		}
		m[x] = true
	}
	return false
}

var _ = rand.Int
