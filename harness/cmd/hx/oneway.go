package main

// Engine oneway — multicast / unicast (with and without per-node arguments and the
// no-send-waiting option) against handlers that stay blocked for the whole case:
// the call must return without waiting for any handler, every targeted node must
// receive exactly its own message exactly once (at most once when the context was
// already cancelled), skipped nodes nothing.  What is to be delivered is predicted by
// the Lean model (`ReplyLoop.targets`).  Serves C06.

import (
	"context"
	"fmt"
	"math/rand"
	"sort"
	"strconv"
	"strings"
	"sync"
	"sync/atomic"
	"time"

	"verifhx/puppet"

	"github.com/relab/gorums"
	"github.com/relab/gorums/cmd/protoc-gen-gorums/dev"
	"google.golang.org/protobuf/types/known/emptypb"
)

func init() { engines["oneway"] = onewayMain }

var onewayVariants = []string{"Multicast", "MulticastPerNodeArg", "Multicast2", "Multicast3", "Multicast4", "Unicast", "Unicast2"}

type owCase struct {
	id        int
	method    string
	nsw       bool
	preCancel bool
	cfg       []uint32
	skip      map[uint32]bool
	empty     map[uint32]bool
}

func (c *owCase) line() string {
	l := func(m map[uint32]bool) string {
		var s []string
		for _, n := range c.cfg {
			if m[n] {
				s = append(s, strconv.Itoa(int(n)))
			}
		}
		return joinOrDash(s, ".")
	}
	var cf []string
	for _, n := range c.cfg {
		cf = append(cf, strconv.Itoa(int(n)))
	}
	b := func(x bool) int {
		if x {
			return 1
		}
		return 0
	}
	return fmt.Sprintf("oneway id=%d m=%s pn=%d nsw=%d cancel=%d cfg=%s skip=%s empty=%s", c.id, c.method, b(puppet.Info[c.method].PerNode), b(c.nsw), b(c.preCancel),
		strings.Join(cf, "."), l(c.skip), l(c.empty))
}

func parseOW(line string) *owCase {
	c := &owCase{skip: map[uint32]bool{}, empty: map[uint32]bool{}}
	for _, f := range strings.Fields(line)[1:] {
		kv := strings.SplitN(f, "=", 2)
		if len(kv) != 2 {
			continue
		}
		switch kv[0] {
		case "id":
			c.id, _ = strconv.Atoi(kv[1])
		case "m":
			c.method = kv[1]
		case "nsw":
			c.nsw = kv[1] == "1"
		case "cancel":
			c.preCancel = kv[1] == "1"
		case "cfg", "skip", "empty":
			if kv[1] == "-" {
				continue
			}
			for _, x := range strings.Split(kv[1], ".") {
				v, _ := strconv.Atoi(x)
				switch kv[0] {
				case "cfg":
					c.cfg = append(c.cfg, uint32(v))
				case "skip":
					c.skip[uint32(v)] = true
				default:
					c.empty[uint32(v)] = true
				}
			}
		}
	}
	return c
}

func genOW(r *rand.Rand, id, maxN int) *owCase {
	c := &owCase{id: id, skip: map[uint32]bool{}, empty: map[uint32]bool{}}
	c.method = onewayVariants[r.Intn(len(onewayVariants))]
	info := puppet.Info[c.method]
	c.nsw = r.Intn(2) == 0
	c.preCancel = r.Intn(8) == 0
	n := 1 + r.Intn(maxN)
	if info.Kind == "unicast" {
		n = 1
	}
	perm := r.Perm(maxN)
	for _, i := range perm[:n] {
		c.cfg = append(c.cfg, uint32(i+1))
	}
	sort.Slice(c.cfg, func(i, j int) bool { return c.cfg[i] < c.cfg[j] })
	if info.PerNode {
		mode := r.Intn(5)
		for _, x := range c.cfg {
			switch {
			case mode == 0:
				c.skip[x] = true
			case mode == 1 && r.Intn(2) == 0:
				c.skip[x] = true
			case mode == 2 && r.Intn(2) == 0:
				c.empty[x] = true
			case mode == 3:
				switch r.Intn(3) {
				case 0:
					c.skip[x] = true
				case 1:
					c.empty[x] = true
				}
			}
		}
	}
	return c
}

func onewayMain(args []string) {
	maxN := 5
	cf := commonFlags("oneway", args, nil)
	start := time.Now()
	sum := newSum("oneway", cf.seed, "cases = (one-way variant, send-waiting or not, configuration, per-node function in {identity, distinct payload, skip subset, skip all, empty valid message}, context cancelled beforehand or not) against handlers "+
		"blocked for the whole case; distinct non-trivial = distinct (variant, nsw, #targets, #skipped, #empty, cancelled) tuples")
	var cases []*owCase
	if cf.replay != "" {
		for _, l := range readLines(cf.replay) {
			if strings.HasPrefix(l, "oneway ") {
				cases = append(cases, parseOW(l))
			}
		}
	} else {
		r := rng(cf.seed, "oneway")
		for id := 0; id < cf.count; id++ {
			cases = append(cases, genOW(r, id, maxN))
		}
	}
	lines := make([]string, len(cases))
	for i, c := range cases {
		lines[i] = c.line()
	}
	exp, err := askDriver(cf.driver, "oneway", lines)
	if err != nil {
		fatal(err)
	}
	shards := cf.shards
	if shards > len(cases) {
		shards = len(cases)
	}
	if shards < 1 {
		shards = 1
	}
	var wg sync.WaitGroup
	ch := make(chan *owCase)
	for s := 0; s < shards; s++ {
		wg.Add(1)
		go func() {
			defer wg.Done()
			sh, err := newShard(maxN)
			if err != nil {
				fatal(err)
			}
			defer sh.close()
			for c := range ch {
				if sum.tooMany() {
					continue
				}
				if sh.dead {
					nsh, err := sh.renew()
					if err != nil {
						fatal(err)
					}
					sh = nsh
				}
				runOW(sh, c, exp[strconv.Itoa(c.id)], sum)
			}
		}()
	}
	for _, c := range cases {
		ch <- c
	}
	close(ch)
	wg.Wait()
	extra := 0
	if cf.replay == "" {
		n := 300
		if cf.tier == "thorough" {
			n = 6000
		}
		extra = cancelAfterReturn(rand.New(rand.NewSource(cf.seed+77)), n, sum)
	}
	if cf.replay == "" && !sum.tooMany() {
		extra += replayScenario(sum)
	}
	sum.Cases = len(cases) + extra
	sum.finish(start, cf.out)
}

// cancelAfterReturn: send-waiting one-way calls whose context is cancelled the moment the call has returned
// (`ctx, cancel := …; node.Unicast(ctx, m); cancel()`), back to back, against healthy nodes.  The context did not
// end while the call was in progress, so every message is delivered exactly once at every targeted node, and no
// call waits.
func cancelAfterReturn(r *rand.Rand, n int, sum *sumT) int {
	sh, err := newShard(3)
	if err != nil {
		fatal(err)
	}
	defer func() { go sh.close() }()
	var mu sync.Mutex
	got := map[string]int{}
	sh.cl.D.KeepLog = false
	sh.cl.D.Default = func(server int, method, val string) *puppet.Script {
		mu.Lock()
		got[fmt.Sprint(server+1, "/", puppet.Token(val))]++
		mu.Unlock()
		s := puppet.NewScript()
		s.Action = puppet.Reply
		s.Release = "early"
		return s
	}
	type sent struct {
		tok   string
		nodes []uint32
	}
	var all []sent
	var progress int64
	finished := make(chan struct{})
	go func() {
		// the calls are made back to back on this goroutine, and each context is cancelled by the very next
		// statement after the call: the window between the end of SendMsg and the first scheduling of the
		// request's watcher goroutine is what this workload aims at
		defer close(finished)
		defer func() { recover() }()
		for i := 0; i < n; i++ {
			tok := fmt.Sprintf("car%d", i)
			req := &dev.Request{Value: tok + "|0|x"}
			ctx, cancel := context.WithCancel(context.Background())
			var nodes []uint32
			if r.Intn(2) == 0 {
				nodes = []uint32{1, 2, 3}
				sh.all.Multicast(ctx, req)
				cancel()
			} else {
				nodes = []uint32{uint32(1 + r.Intn(3))}
				nd := sh.node(nodes[0])
				nd.Unicast(ctx, req)
				cancel()
			}
			mu.Lock()
			all = append(all, sent{tok, nodes})
			mu.Unlock()
			atomic.StoreInt64(&progress, int64(i+1))
			if r.Intn(4) == 0 {
				time.Sleep(time.Duration(r.Intn(300)) * time.Microsecond)
			}
		}
	}()
	// watchdog: the loop must keep moving
	last, lastAt := int64(-1), time.Now()
	for running := true; running; {
		select {
		case <-finished:
			running = false
		case <-time.After(100 * time.Millisecond):
			if p := atomic.LoadInt64(&progress); p != last {
				last, lastAt = p, time.Now()
			} else if time.Since(lastAt) > 3*time.Second {
				// no stream fails in this workload (no context ends during a write, no server stops), so nothing
				// here can legitimately run into the connection wedges of C09: a stall is a violation whatever its shape
				w := diagnose()
				sum.mismatch(Mismatch{Property: "C06", Case: fmt.Sprintf("cancel-after-return call %d of %d", last, n), Expected: "a send-waiting one-way call to healthy nodes returns without waiting",
					Observed: "still running after 3 s (goroutine signature: " + w.id + ")", Detail: strings.Join(signatures(w.dump), "; ")})
				return int(last)
			}
		}
	}
	// every message was delivered exactly once at every node it was sent to
	complete := func() bool {
		mu.Lock()
		defer mu.Unlock()
		for _, s := range all {
			for _, nid := range s.nodes {
				if got[fmt.Sprint(nid, "/", s.tok)] < 1 {
					return false
				}
			}
		}
		return true
	}
	waitFor(3*time.Second, complete)
	mu.Lock()
	defer mu.Unlock()
	missing, dup := 0, 0
	first := ""
	for _, s := range all {
		for _, nid := range s.nodes {
			k := got[fmt.Sprint(nid, "/", s.tok)]
			if k == 0 {
				missing++
				if first == "" {
					first = fmt.Sprintf("message %s never reached node %d", s.tok, nid)
				}
			}
			if k > 1 {
				dup++
			}
		}
	}
	if missing > 0 || dup > 0 {
		sum.mismatch(Mismatch{Property: "C06", Case: fmt.Sprintf("cancel-after-return: %d send-waiting one-way calls, each context cancelled right after the call returned", n),
			Expected: "every message is delivered exactly once at every targeted (healthy) node", Observed: fmt.Sprintf("%d deliveries missing, %d duplicated; %s", missing, dup, first)})
	}
	sum.count("cancel-after-return-calls")
	return len(all)
}

func runOW(sh *shard, c *owCase, expLine string, sum *sumT) {
	info := puppet.Info[c.method]
	token := fmt.Sprintf("o%d", c.id)
	caseLine := c.line()
	fail := func(expd, obs, detail string) {
		timeout := strings.Contains(obs, "within")
		sh.caseFail(Mismatch{Property: "C06", Case: caseLine, Expected: expd, Observed: obs, Detail: detail}, timeout)
	}
	defer sh.caseEnd(sum)
	// expected deliveries from the model
	want := map[uint32]string{}
	for _, f := range strings.Fields(expLine) {
		if strings.HasPrefix(f, "deliver=") && f != "deliver=-" {
			for _, d := range strings.Split(f[8:], ",") {
				p := strings.SplitN(d, ":", 2)
				n, _ := strconv.Atoi(p[0])
				want[uint32(n)] = p[1]
			}
		}
	}
	if !strings.HasPrefix(expLine, "deliver=") {
		fail("driver output", expLine, "")
		return
	}
	cfg, err := sh.config(c.cfg)
	if err != nil {
		fail("configuration", err.Error(), "")
		return
	}
	// every handler of the configuration blocks until the drain
	scripts := map[uint32]*puppet.Script{}
	for _, nid := range c.cfg {
		s := puppet.NewScript()
		s.Gate = make(chan struct{})
		s.Action = puppet.Reply
		scripts[nid] = s
		if info.EmptyIn || c.empty[nid] {
			sh.cl.D.ExpectNext(int(nid-1), c.method, s)
		} else {
			sh.cl.D.Expect(int(nid-1), token, s)
		}
	}
	req := &dev.Request{Value: token + "|0|orig"}
	perNode := func(r *dev.Request, nid uint32) *dev.Request {
		switch {
		case c.skip[nid]:
			return nil
		case c.empty[nid]:
			return &dev.Request{}
		}
		return &dev.Request{Value: fmt.Sprintf("%s|0|pn%d", token, nid)}
	}
	ctx, cancel := newCancelCtx(c.id%2 == 1)
	defer cancel()
	if c.preCancel {
		cancel()
	}
	var opts []gorums.CallOption
	if c.nsw {
		opts = append(opts, gorums.WithNoSendWaiting())
	}
	done := make(chan string, 1)
	t0 := time.Now()
	go func() {
		defer func() {
			if p := recover(); p != nil {
				done <- fmt.Sprint("panic: ", p)
			}
		}()
		switch c.method {
		case "Multicast":
			cfg.Multicast(ctx, req, opts...)
		case "MulticastPerNodeArg":
			cfg.MulticastPerNodeArg(ctx, req, perNode, opts...)
		case "Multicast2":
			cfg.Multicast2(ctx, req, opts...)
		case "Multicast3":
			cfg.Multicast3(ctx, req, opts...)
		case "Multicast4":
			cfg.Multicast4(ctx, &emptypb.Empty{}, opts...)
		case "Unicast":
			sh.node(c.cfg[0]).Unicast(ctx, req, opts...)
		case "Unicast2":
			sh.node(c.cfg[0]).Unicast2(ctx, req, opts...)
		}
		done <- ""
	}()
	select {
	case p := <-done:
		if p != "" {
			fail("call returns", p, "")
		}
	case <-time.After(3 * time.Second):
		fail("one-way call returns without waiting for handlers", "no return within 3s while every handler is blocked", "")
		// unblock the handlers so that the call can end
		for _, s := range scripts {
			close(s.Gate)
		}
		<-done
		for _, s := range scripts {
			s.Gate = nil
		}
	}
	ret := time.Since(t0)
	_ = ret
	// deliveries
	entered := func(s *puppet.Script) bool {
		select {
		case <-s.Entered:
			return true
		default:
			return false
		}
	}
	for _, nid := range c.cfg {
		s := scripts[nid]
		kind, targeted := want[nid]
		if targeted && !c.preCancel {
			if !waitFor(3*time.Second, func() bool { return entered(s) }) {
				fail(fmt.Sprintf("node %d receives its message", nid), "nothing received within 3s", "")
				continue
			}
		}
		if !targeted {
			continue
		}
		if entered(s) {
			wantVal := token + "|0|orig"
			switch {
			case kind == "e" || info.EmptyIn:
				wantVal = ""
			case kind == "p":
				wantVal = fmt.Sprintf("%s|0|pn%d", token, nid)
			}
			if s.GotValue != wantVal {
				fail(fmt.Sprintf("node %d receives %q", nid, wantVal), fmt.Sprintf("%q", s.GotValue), "")
			}
		}
	}
	// drain: let the handlers go; then nothing may have reached a skipped node and nobody twice
	time.Sleep(300 * time.Microsecond)
	for _, s := range scripts {
		if s.Gate != nil {
			close(s.Gate)
		}
	}
	for _, s := range scripts {
		if entered(s) {
			select {
			case <-s.Exited:
			case <-time.After(5 * time.Second):
			}
		}
	}
	count := map[int]int{}
	for _, e := range sh.cl.D.Events() {
		if e.Phase == "DUPLICATE" {
			fail("at most one delivery per node", "duplicate delivery", e.Value)
		}
		if e.Phase == "enter" {
			count[e.Server]++
		}
	}
	for _, nid := range c.cfg {
		_, targeted := want[nid]
		n := count[int(nid-1)]
		if !targeted && n > 0 {
			fail(fmt.Sprintf("skipped node %d receives nothing", nid), fmt.Sprintf("%d message(s)", n), "")
		}
		if n > 1 {
			fail(fmt.Sprintf("node %d receives at most one message", nid), fmt.Sprintf("%d", n), "")
		}
	}
	sh.cl.D.ResetLog()
	sh.cl.D.Forget(token, sh.n)
	for _, s := range scripts {
		s.Dead.Store(true)
	}
	for _, nid := range c.cfg {
		node := sh.node(nid)
		if !waitFor(3*time.Second, func() bool { return routers(node) == 0 }) {
			sh.caseFail(Mismatch{Property: "C18", Case: caseLine, Expected: "no router left", Observed: fmt.Sprintf("%d routers on node %d", routers(node), nid)}, true)
		}
	}
	sum.count("variant:" + c.method)
	if c.nsw {
		sum.count("no-send-waiting")
	}
	if c.preCancel {
		sum.count("context-cancelled-beforehand")
	}
	sum.nontrivial(fmt.Sprintf("%s/%v/%d/%d/%d/%v", c.method, c.nsw, len(want), len(c.skip), len(c.empty), c.preCancel))
	sum.sample(caseLine + " => " + expLine)
}
