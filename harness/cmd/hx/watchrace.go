package main

import (
	"fmt"
	"math/rand"
	"runtime"
	"sync"
	"sync/atomic"

	"github.com/relab/gorums"
)

// watchRace: Watch against a concurrent publication (C11: "a watcher of level l is released as soon as level l is
// published or the call completes", whatever the instant of the Watch call).  The Lean model treats Watch and set as
// atomic steps (Correctable.lean; tied by the T1 fact corr_watchAtomic); this workload looks for the interleaving in
// which they are not: several goroutines call Watch(l) at the moment the reply loop's set(l) (or the completing set)
// runs.  Whichever of the two takes effect first, once both have returned the channel must be closed.
func watchRace(sum *sumT, seed int64, iters int) {
	r := rand.New(rand.NewSource(seed ^ 0x57a7c4))
	const watchers = 3
	bad := 0
	for it := 0; it < iters && bad < 3; it++ {
		c := gorums.VerifNewCorrectable()
		level := 1 + r.Intn(3)
		done := r.Intn(3) == 0
		pubLevel := level + r.Intn(2) // at or above the watched level
		if done && r.Intn(2) == 0 {
			pubLevel = level - 1 // completion below the watched level releases as well
		}
		var start int32
		var wg sync.WaitGroup
		chans := make([]<-chan struct{}, watchers)
		for w := 0; w < watchers; w++ {
			wg.Add(1)
			go func(w int) {
				defer wg.Done()
				for atomic.LoadInt32(&start) == 0 {
					runtime.Gosched()
				}
				chans[w] = c.Watch(level)
			}(w)
		}
		wg.Add(1)
		go func() {
			defer wg.Done()
			for atomic.LoadInt32(&start) == 0 {
				runtime.Gosched()
			}
			gorums.VerifCorrectableSet(c, nil, pubLevel, nil, done)
		}()
		atomic.StoreInt32(&start, 1)
		wg.Wait()
		open := 0
		for _, ch := range chans {
			select {
			case <-ch:
			default:
				open++
			}
		}
		sum.count("watchrace")
		if open > 0 {
			bad++
			sum.mismatch(Mismatch{Property: "C11", Case: fmt.Sprintf("watchrace iteration=%d watch=%d publish=%d done=%v (Watch concurrent with set)", it, level, pubLevel, done),
				Expected: "every Watch channel closed once Watch and the publication have both returned",
				Observed: fmt.Sprintf("%d of %d still open", open, watchers)})
		}
	}
}
