package main

// Engine corr — exact correspondence of correctable calls (all 12 zorums variants,
// plain and server-stream) with the Lean model `Correctable.run`: after every gated
// arrival the harness snapshots raw Get, typed Get (under recover), Done and the
// closure of every registered Watch channel, and compares with the model's snapshot.
// Serves C11.

import (
	"context"
	"fmt"
	"math/rand"
	"regexp"
	"sort"
	"strconv"
	"strings"
	"sync"
	"time"

	"verifhx/puppet"

	"github.com/relab/gorums"
	"github.com/relab/gorums/cmd/protoc-gen-gorums/dev"
	"google.golang.org/grpc/codes"
	"google.golang.org/protobuf/proto"
	"google.golang.org/protobuf/types/known/emptypb"
)

func init() { engines["corr"] = corrMain }

var corrVariants = []string{"Correctable", "CorrectablePerNodeArg", "CorrectableCustomReturnType", "CorrectableCombo", "CorrectableEmpty", "CorrectableEmpty2",
	"CorrectableStream", "CorrectableStreamPerNodeArg", "CorrectableStreamCustomReturnType", "CorrectableStreamCombo", "CorrectableStreamEmpty", "CorrectableStreamEmpty2"}

// corrObj abstracts the generated Correctable* types.
type corrObj struct {
	raw   *gorums.Correctable
	typed func() (proto.Message, int, error)
}

func corrCall(cfg *dev.Configuration, method string, ctx context.Context, req *dev.Request, f perNodeFn) corrObj {
	e := &emptypb.Empty{}
	switch method {
	case "Correctable":
		x := cfg.Correctable(ctx, req)
		return corrObj{x.Correctable, func() (proto.Message, int, error) { return x.Get() }}
	case "CorrectablePerNodeArg":
		x := cfg.CorrectablePerNodeArg(ctx, req, f)
		return corrObj{x.Correctable, func() (proto.Message, int, error) { return x.Get() }}
	case "CorrectableCustomReturnType":
		x := cfg.CorrectableCustomReturnType(ctx, req)
		return corrObj{x.Correctable, func() (proto.Message, int, error) { return x.Get() }}
	case "CorrectableCombo":
		x := cfg.CorrectableCombo(ctx, req, f)
		return corrObj{x.Correctable, func() (proto.Message, int, error) { return x.Get() }}
	case "CorrectableEmpty":
		x := cfg.CorrectableEmpty(ctx, req)
		return corrObj{x.Correctable, func() (proto.Message, int, error) { return x.Get() }}
	case "CorrectableEmpty2":
		x := cfg.CorrectableEmpty2(ctx, e)
		return corrObj{x.Correctable, func() (proto.Message, int, error) { return x.Get() }}
	case "CorrectableStream":
		x := cfg.CorrectableStream(ctx, req)
		return corrObj{x.Correctable, func() (proto.Message, int, error) { return x.Get() }}
	case "CorrectableStreamPerNodeArg":
		x := cfg.CorrectableStreamPerNodeArg(ctx, req, f)
		return corrObj{x.Correctable, func() (proto.Message, int, error) { return x.Get() }}
	case "CorrectableStreamCustomReturnType":
		x := cfg.CorrectableStreamCustomReturnType(ctx, req)
		return corrObj{x.Correctable, func() (proto.Message, int, error) { return x.Get() }}
	case "CorrectableStreamCombo":
		x := cfg.CorrectableStreamCombo(ctx, req, f)
		return corrObj{x.Correctable, func() (proto.Message, int, error) { return x.Get() }}
	case "CorrectableStreamEmpty":
		x := cfg.CorrectableStreamEmpty(ctx, req)
		return corrObj{x.Correctable, func() (proto.Message, int, error) { return x.Get() }}
	case "CorrectableStreamEmpty2":
		x := cfg.CorrectableStreamEmpty2(ctx, e)
		return corrObj{x.Correctable, func() (proto.Message, int, error) { return x.Get() }}
	}
	panic("corrCall: " + method)
}

type corrItem struct {
	kind byte // r e c w
	nid  uint32
	val  int64
}

type corrCase struct {
	id     int
	method string
	cfg    []uint32
	skip   map[uint32]bool
	qfKind string
	k      int64
	seq    []corrItem
}

func (c *corrCase) stream() bool  { return puppet.Info[c.method].Kind == "stream" }
func (c *corrCase) expected() int { return len(c.cfg) - len(c.skip) }

func (c *corrCase) line() string {
	var items []string
	for _, a := range c.seq {
		switch a.kind {
		case 'r', 'e', 'x':
			items = append(items, fmt.Sprintf("%c%d:%d", a.kind, a.nid, a.val))
		case 'c':
			items = append(items, "c")
		case 'w':
			items = append(items, fmt.Sprintf("w%d", a.val))
		}
	}
	var sk, cf []string
	for _, n := range c.cfg {
		cf = append(cf, strconv.Itoa(int(n)))
		if c.skip[n] {
			sk = append(sk, strconv.Itoa(int(n)))
		}
	}
	st := 0
	if c.stream() {
		st = 1
	}
	return fmt.Sprintf("corr id=%d m=%s stream=%d x=%d qf=%s:%d seq=%s cfg=%s skip=%s", c.id, c.method, st, c.expected(), c.qfKind, c.k,
		joinOrDash(items, ","), joinOrDash(cf, "."), joinOrDash(sk, "."))
}

func parseCorr(line string) *corrCase {
	c := &corrCase{skip: map[uint32]bool{}}
	for _, f := range strings.Fields(line)[1:] {
		kv := strings.SplitN(f, "=", 2)
		if len(kv) != 2 {
			continue
		}
		switch kv[0] {
		case "id":
			c.id, _ = strconv.Atoi(kv[1])
		case "m":
			c.method = kv[1]
		case "qf":
			p := strings.SplitN(kv[1], ":", 2)
			c.qfKind = p[0]
			c.k, _ = strconv.ParseInt(p[1], 10, 64)
		case "cfg", "skip":
			if kv[1] == "-" {
				continue
			}
			for _, x := range strings.Split(kv[1], ".") {
				v, _ := strconv.Atoi(x)
				if kv[0] == "cfg" {
					c.cfg = append(c.cfg, uint32(v))
				} else {
					c.skip[uint32(v)] = true
				}
			}
		case "seq":
			if kv[1] == "-" {
				continue
			}
			for _, x := range strings.Split(kv[1], ",") {
				switch x[0] {
				case 'c':
					c.seq = append(c.seq, corrItem{kind: 'c'})
				case 'w':
					v, _ := strconv.ParseInt(x[1:], 10, 64)
					c.seq = append(c.seq, corrItem{kind: 'w', val: v})
				default:
					p := strings.SplitN(x[1:], ":", 2)
					n, _ := strconv.Atoi(p[0])
					v, _ := strconv.ParseInt(p[1], 10, 64)
					c.seq = append(c.seq, corrItem{kind: x[0], nid: uint32(n), val: v})
				}
			}
		}
	}
	return c
}

// cqfEval mirrors Driver/Corr.lean.
func cqfEval(kind string, k int64, vals []int64) (v int64, level int, done bool) {
	n := int64(len(vals))
	var mx, sm int64
	for _, x := range vals {
		if x > mx {
			mx = x
		}
		sm += x
	}
	switch kind {
	case "cnt":
		return mx, int(n), n >= k
	case "val":
		return sm, int(mx), sm >= k
	case "zig":
		return n, int((n * 3) % 4), n >= k
	case "dlow":
		if n >= k {
			return mx, 0, true
		}
		return mx, int(n), false
	}
	return 0, 0, false
}

func genCorr(r *rand.Rand, id, maxN int) *corrCase {
	c := &corrCase{id: id, skip: map[uint32]bool{}}
	c.method = corrVariants[r.Intn(len(corrVariants))]
	info := puppet.Info[c.method]
	n := 1 + r.Intn(maxN)
	perm := r.Perm(maxN)
	for _, i := range perm[:n] {
		c.cfg = append(c.cfg, uint32(i+1))
	}
	sort.Slice(c.cfg, func(i, j int) bool { return c.cfg[i] < c.cfg[j] })
	if info.PerNode {
		switch r.Intn(6) {
		case 0:
			for _, x := range c.cfg {
				c.skip[x] = true
			}
		case 1, 2:
			for _, x := range c.cfg {
				if r.Intn(3) == 0 {
					c.skip[x] = true
				}
			}
		}
	}
	x := c.expected()
	c.qfKind = []string{"cnt", "cnt", "val", "zig", "dlow"}[r.Intn(5)]
	c.k = int64(1 + r.Intn(x+2))
	if c.qfKind == "val" {
		c.k = int64(r.Intn(3*x + 3))
	}
	if r.Intn(5) == 0 {
		c.k = 99 // never done
	}
	var live []uint32
	for _, nid := range c.cfg {
		if !c.skip[nid] {
			live = append(live, nid)
		}
	}
	val := func() int64 {
		if info.EmptyOut {
			return 0
		}
		return int64(r.Intn(4))
	}
	pErr := []float64{0, 0.15, 0.4, 0.8}[r.Intn(4)]
	if c.stream() {
		// per node: 0..3 replies then possibly an error; interleave across nodes
		type ev struct {
			it corrItem
		}
		perNode := map[uint32][]corrItem{}
		for _, nid := range live {
			if r.Intn(6) == 0 {
				continue // silent
			}
			k := r.Intn(4)
			for i := 0; i < k; i++ {
				perNode[nid] = append(perNode[nid], corrItem{kind: 'r', nid: nid, val: val()})
			}
			if r.Float64() < pErr {
				perNode[nid] = append(perNode[nid], corrItem{kind: 'e', nid: nid, val: int64(1 + r.Intn(16))})
			}
		}
		for {
			var cand []uint32
			for _, nid := range live {
				if len(perNode[nid]) > 0 {
					cand = append(cand, nid)
				}
			}
			if len(cand) == 0 {
				break
			}
			nid := cand[r.Intn(len(cand))]
			c.seq = append(c.seq, perNode[nid][0])
			perNode[nid] = perNode[nid][1:]
		}
		// the server behind one node dies at some point (x): a node that has already failed must not be
		// reported a second time, a node that was still streaming fails once; nothing arrives from it afterwards
		if len(live) > 0 && r.Intn(4) == 0 {
			nid := live[r.Intn(len(live))]
			p := r.Intn(len(c.seq) + 1)
			var seq []corrItem
			seq = append(seq, c.seq[:p]...)
			seq = append(seq, corrItem{kind: 'x', nid: nid})
			for _, a := range c.seq[p:] {
				if a.nid != nid {
					seq = append(seq, a)
				}
			}
			c.seq = seq
		}
	} else {
		r.Shuffle(len(live), func(i, j int) { live[i], live[j] = live[j], live[i] })
		pSilent := []float64{0, 0, 0.15, 0.4}[r.Intn(4)]
		for _, nid := range live {
			f := r.Float64()
			switch {
			case f < pSilent:
			case f < pSilent+pErr:
				c.seq = append(c.seq, corrItem{kind: 'e', nid: nid, val: int64(1 + r.Intn(16))})
			default:
				c.seq = append(c.seq, corrItem{kind: 'r', nid: nid, val: val()})
			}
		}
	}
	// watchers registered along the way (also after completion)
	for k := r.Intn(3); k > 0; k-- {
		p := r.Intn(len(c.seq) + 1)
		c.seq = append(c.seq[:p], append([]corrItem{{kind: 'w', val: int64(r.Intn(8) - 1)}}, c.seq[p:]...)...)
	}
	// context end: at the start or right after a reply arrival
	if r.Intn(3) == 0 && !info.EmptyIn {
		pos := []int{0}
		for i, a := range c.seq {
			if a.kind == 'r' {
				pos = append(pos, i+1)
			}
		}
		p := pos[r.Intn(len(pos))]
		c.seq = append(c.seq[:p], append([]corrItem{{kind: 'c'}}, c.seq[p:]...)...)
	}
	if r.Intn(2) == 0 {
		c.seq = append(c.seq, corrItem{kind: 'w', val: int64(r.Intn(9) - 1)})
	}
	return c
}

var corrCorpus = []string{
	"corr id=0 m=Correctable stream=0 x=3 qf=cnt:3 seq=r1:2,w1,r2:1,r3:0 cfg=1.2.3 skip=-",
	"corr id=0 m=CorrectableCustomReturnType stream=0 x=2 qf=cnt:2 seq=r1:2,r2:1,w9 cfg=1.2 skip=-",
	"corr id=0 m=CorrectableCombo stream=0 x=0 qf=cnt:1 seq=w3 cfg=1.2 skip=1.2",
	"corr id=0 m=CorrectableStream stream=1 x=2 qf=cnt:99 seq=r1:1,r1:2,r2:3,e1:5,e2:6 cfg=1.2 skip=-",
	"corr id=0 m=Correctable stream=0 x=3 qf=dlow:3 seq=r1:2,r2:1,r3:0 cfg=1.2.3 skip=-",
	"corr id=0 m=Correctable stream=0 x=3 qf=zig:99 seq=r1:2,r2:1,c,w2 cfg=1.2.3 skip=-",
	"corr id=0 m=CorrectableStreamCustomReturnType stream=1 x=1 qf=val:5 seq=r1:1,r1:3,r1:2 cfg=1 skip=-",
}

func corrMain(args []string) {
	maxN := 4
	cf := commonFlags("corr", args, nil)
	start := time.Now()
	sum := newSum("corr", cf.seed, "cases = (correctable variant incl. server streams, configuration, skipped nodes, level function in {count, value-dependent, non-monotone, done-with-lower-level, never-done}, "+
		"gated sequence of (repeated, for streams) replies / errors / context end / Watch registrations); one snapshot comparison per sequence item; "+
		"distinct non-trivial = distinct (stream?, per-node?, custom?, qf kind, completion class, #levels published, has error, has cancel, watch after done) tuples")
	var cases []*corrCase
	if cf.replay != "" {
		for _, l := range readLines(cf.replay) {
			if strings.HasPrefix(l, "corr ") {
				cases = append(cases, parseCorr(l))
			}
		}
	} else {
		r := rng(cf.seed, "corr")
		id := 0
		for _, l := range corrCorpus {
			c := parseCorr(l)
			c.id = id
			id++
			cases = append(cases, c)
		}
		for len(cases) < cf.count {
			cases = append(cases, genCorr(r, id, maxN))
			id++
		}
	}
	lines := make([]string, len(cases))
	for i, c := range cases {
		lines[i] = c.line()
	}
	exp, err := askDriver(cf.driver, "corr", lines)
	if err != nil {
		fatal(err)
	}
	shards := cf.shards
	if shards > len(cases) {
		shards = len(cases)
	}
	if shards < 1 {
		shards = 1
	}
	var wg sync.WaitGroup
	ch := make(chan *corrCase)
	for s := 0; s < shards; s++ {
		wg.Add(1)
		go func() {
			defer wg.Done()
			sh, err := newShard(maxN)
			if err != nil {
				fatal(err)
			}
			defer sh.close()
			for c := range ch {
				if sum.tooMany() {
					sum.count("skipped-after-many-mismatches")
					continue
				}
				if sh.dead {
					nsh, err := sh.renew()
					if err != nil {
						fatal(err)
					}
					sh = nsh
				}
				e, ok := exp[strconv.Itoa(c.id)]
				if !ok || !strings.HasPrefix(e, "snaps=") {
					sum.mismatch(Mismatch{Property: "C11", Case: c.line(), Expected: "driver output", Observed: e})
					continue
				}
				runCorr(sh, c, strings.Split(strings.TrimPrefix(e, "snaps="), "|"), sum)
			}
		}()
	}
	for _, c := range cases {
		ch <- c
	}
	close(ch)
	wg.Wait()
	if cf.replay == "" {
		n := 20000
		if cf.tier == "thorough" {
			n = 400000
		}
		watchRace(sum, cf.seed, n)
	}
	sum.Cases = len(cases)
	sum.finish(start, cf.out)
}

func runCorr(sh *shard, c *corrCase, expSnaps []string, sum *sumT) {
	info := puppet.Info[c.method]
	token := fmt.Sprintf("k%d", c.id)
	caseLine := c.line()
	fail := func(prop, expd, obs, detail string) {
		timeout := strings.Contains(obs, "within") || strings.Contains(expd, "snapshot") || strings.Contains(obs, "routers on node")
		sh.caseFail(Mismatch{Property: prop, Case: caseLine, Expected: expd, Observed: obs, Detail: detail}, timeout)
	}
	defer sh.caseEnd(sum)
	cfg, err := sh.config(c.cfg)
	if err != nil {
		fail("C11", "configuration", err.Error(), "")
		return
	}
	stamp := func(nid uint32, v int64) int64 {
		if info.EmptyOut {
			return 0
		}
		return v + 1000*int64(nid) + 100000*int64(c.id+1)
	}
	// scripts
	scripts := map[uint32]*puppet.Script{}
	gates := map[uint32][]chan struct{}{} // per node: one gate per arrival of that node, in order
	for _, nid := range c.cfg {
		if c.skip[nid] {
			continue
		}
		s := puppet.NewScript()
		s.Action = puppet.Silent
		if c.stream() {
			s.EndGate = make(chan struct{})
			s.Action = puppet.Reply // ends with nil unless an error arrival says otherwise
		} else {
			s.Gate = make(chan struct{})
		}
		scripts[nid] = s
	}
	for _, a := range c.seq {
		if a.kind != 'r' && a.kind != 'e' {
			continue
		}
		s := scripts[a.nid]
		if c.stream() {
			if a.kind == 'r' {
				g := make(chan struct{})
				s.Stream = append(s.Stream, puppet.StreamStep{Gate: g, Value: stamp(a.nid, a.val)})
				gates[a.nid] = append(gates[a.nid], g)
			} else {
				s.Action, s.Code, s.Msg = puppet.Fail, codes.Code(a.val), "boom"
				gates[a.nid] = append(gates[a.nid], s.EndGate)
			}
		} else {
			if a.kind == 'r' {
				s.Action, s.Value = puppet.Reply, stamp(a.nid, a.val)
			} else {
				s.Action, s.Code, s.Msg = puppet.Fail, codes.Code(a.val), "boom"
			}
			gates[a.nid] = append(gates[a.nid], s.Gate)
		}
	}
	for nid, s := range scripts {
		if info.EmptyIn {
			sh.cl.D.ExpectNext(int(nid-1), c.method, s)
		} else {
			sh.cl.D.Expect(int(nid-1), token, s)
		}
	}
	sh.qs.F = func(method, req string, replies map[uint32]int64) (int64, int, bool, bool) {
		vals := make([]int64, 0, len(replies))
		for _, nid := range puppet.SortedKeys(replies) {
			v := replies[nid]
			if !info.EmptyOut {
				if v/100000 != int64(c.id+1) || (v/1000)%100 != int64(nid) {
					fail("C05", "genuine replies only", fmt.Sprintf("node %d holds %d", nid, v), "")
				}
				v %= 1000
			}
			vals = append(vals, v)
		}
		v, l, d := cqfEval(c.qfKind, c.k, vals)
		return v, l, d, true
	}
	req := &dev.Request{Value: token + "|0|orig"}
	sh.qs.Reset(req)
	if info.EmptyIn {
		sh.qs.Reset(nil)
	}
	perNode := func(r *dev.Request, nid uint32) *dev.Request {
		if c.skip[nid] {
			return nil
		}
		return &dev.Request{Value: fmt.Sprintf("%s|0|pn%d", token, nid)}
	}
	ctx, cancel := newCancelCtx(c.id%2 == 1)
	defer cancel()
	if len(c.seq) > 0 && c.seq[0].kind == 'c' && c.expected() == 0 {
		// a context end that is the first item precedes the call when the call targets nothing (its exhaustion
		// test at the top of the loop then sees the ended context: Driver/Corr.lean); with targets it is issued
		// after snapshot 0, like every later one, so that snapshot 0 is deterministic
		cancel()
	}
	var obj corrObj
	started := make(chan string, 1)
	go func() {
		// own goroutine: the call hands its requests to every node before it returns and waits there
		// for as long as a node's sender is wedged (known findings of C09)
		var o corrObj
		defer func() {
			if p := recover(); p != nil {
				started <- fmt.Sprint("panic: ", p)
				return
			}
			obj = o
			started <- ""
		}()
		o = corrCall(cfg, c.method, ctx, req, perNode)
	}()
	select {
	case pan := <-started:
		if pan != "" {
			fail("C11", "call returns a correctable", pan, "")
		}
	case <-time.After(10 * time.Second):
		fail("C11", "call returns a correctable", "the call did not return within 10s", "")
		return
	}
	if obj.raw == nil {
		return
	}
	caseHasCancel := false
	for _, a := range c.seq {
		if a.kind == 'c' {
			caseHasCancel = true
		}
	}
	if info.EmptyIn {
		// requests without a payload cannot carry the case token: their scripts are matched in arrival order per
		// (server, method), so every request of this case must have reached its server before the case can end
		for nid, s := range scripts {
			select {
			case <-s.Entered:
			case <-time.After(5 * time.Second):
				fail("C06", fmt.Sprintf("handler entered at node %d", nid), "not entered within 5s", "")
			}
		}
	}
	var watches []<-chan struct{}
	for _, l := range []int{-1, 0, 1, 2, 3, 5} {
		watches = append(watches, obj.raw.Watch(l))
	}
	snapshot := func() string {
		m, lvl, err := obj.raw.Get()
		v := "nil"
		if m != nil {
			x, isNil := valueOf(m)
			if !isNil {
				v = strconv.FormatInt(x, 10)
			}
		}
		tv := "nil"
		func() {
			defer func() {
				if p := recover(); p != nil {
					tv = "PANIC"
				}
			}()
			tm, tl, terr := obj.typed()
			if x, isNil := valueOf(tm); !isNil {
				tv = strconv.FormatInt(x, 10)
			}
			if tl != lvl || (terr == nil) != (err == nil) {
				tv += "(typed level/err differ)"
			}
		}()
		e := "none"
		if err != nil {
			e, _ = canonErr(err)
			if caseHasCancel {
				fed := map[string]bool{}
				for _, a := range c.seq {
					if a.kind == 'c' {
						break
					}
					if a.kind == 'e' {
						fed[strconv.Itoa(int(a.nid))] = true
					}
				}
				e = ctxCanon(e, fed)
			}
		}
		d := 0
		select {
		case <-obj.raw.Done():
			d = 1
		default:
		}
		var w strings.Builder
		for _, ch := range watches {
			select {
			case <-ch:
				w.WriteByte('1')
			default:
				w.WriteByte('0')
			}
		}
		return fmt.Sprintf("v=%s,tv=%s,l=%d,e=%s,d=%d,w=%s", v, tv, lvl, e, d, w.String())
	}
	// the expected snapshot may list the context's own per-node errors differently (see qc engine):
	// compare with the ctx error's node list reduced to real failures
	for i := range expSnaps {
		expSnaps[i] = canonSnap(expSnaps[i], info.EmptyOut, c.stream())
	}
	await := func(i int) {
		want := ""
		if i < len(expSnaps) {
			want = expSnaps[i]
		}
		var got string
		ok := waitFor(3*time.Second, func() bool { got = canonSnap(snapshot(), info.EmptyOut, c.stream()); return got == want })
		if !ok {
			fail("C11", fmt.Sprintf("snapshot %d: %s", i, want), got, "")
		}
	}
	await(0)
	next := map[uint32]int{}
	cancelled := false
	var crashed []uint32
	defer func() {
		// bring crashed servers back and wait until their nodes are used again
		for _, nid := range crashed {
			if err := sh.cl.Restart(int(nid - 1)); err != nil {
				fatal(err)
			}
		}
		for _, nid := range crashed {
			node := sh.node(nid)
			if !waitFor(6*time.Second, func() bool { return probe(node, 400*time.Millisecond) }) {
				sh.caseFail(Mismatch{Property: "C10", Case: caseLine, Expected: fmt.Sprintf("node %d is used again after its server restarted", nid), Observed: "probe RPCs fail for 6s", Detail: strings.Join(signatures(goroutineDump()), "; ")}, true)
			}
		}
	}()
	for i, a := range c.seq {
		// once the loop has returned (completed, or context ended) nothing more is consumed:
		// the remaining arrivals are only released at the drain
		over := cancelled || strings.Contains(expSnaps[i], "d=1")
		switch {
		case a.kind == 'w':
			watches = append(watches, obj.raw.Watch(int(a.val)))
		case a.kind == 'c':
			cancel()
			cancelled = true
		case over:
		case a.kind == 'x':
			// the server behind this node dies; wait until the client has dealt with the failure of the stream
			sh.cl.Stop(int(a.nid - 1))
			crashed = append(crashed, a.nid)
			node := sh.node(a.nid)
			waitFor(2*time.Second, func() bool { return routers(node) == 0 })
			time.Sleep(20 * time.Millisecond)
		default:
			before := sh.qs.LogLen()
			s := scripts[a.nid]
			select {
			case <-s.Entered:
			case <-time.After(5 * time.Second):
				fail("C06", fmt.Sprintf("handler entered at node %d", a.nid), "not entered within 5s", "")
			}
			g := gates[a.nid][next[a.nid]]
			next[a.nid]++
			if !c.stream() {
				// plain handlers are gated by one gate
			}
			select {
			case <-g:
			default:
				close(g)
			}
			if a.kind == 'r' {
				// consumed = the quorum function has been invoked on it
				waitFor(5*time.Second, func() bool { return sh.qs.LogLen() > before })
			} else if !c.stream() {
				node := sh.node(a.nid)
				waitFor(5*time.Second, func() bool { return routers(node) == 0 })
			}
		}
		await(i + 1)
	}
	// finish: complete the call if it is still open, then drain
	select {
	case <-obj.raw.Done():
	default:
		cancel()
		if !waitFor(5*time.Second, func() bool {
			select {
			case <-obj.raw.Done():
				return true
			default:
				return false
			}
		}) {
			fail("C08", "completion after cancel", "not completed within 5s", "")
		}
	}
	final := canonSnap(snapshot(), info.EmptyOut, c.stream())
	time.Sleep(200 * time.Microsecond)
	if again := canonSnap(snapshot(), info.EmptyOut, c.stream()); again != final {
		fail("C11", "Get frozen after completion: "+final, again, "")
	}
	hasCancel := false
	for _, a := range c.seq {
		if a.kind == 'c' {
			hasCancel = true
		}
	}
	for nid, s := range scripts {
		node := sh.node(nid)
		entered := func() bool {
			select {
			case <-s.Entered:
				return true
			default:
				return false
			}
		}
		waitFor(5*time.Second, func() bool { return entered() || routers(node) == 0 })
		if !entered() && !hasCancel {
			select {
			case <-obj.raw.Done():
				// the call completed (e.g. done at the first replies) before this request was written: fine
			default:
			}
		}
		for _, st := range s.Stream {
			select {
			case <-st.Gate:
			default:
				close(st.Gate)
			}
		}
		for _, g := range []chan struct{}{s.Gate, s.EndGate} {
			if g != nil {
				select {
				case <-g:
				default:
					if s.Action == puppet.Silent {
						s.Action = puppet.Reply
					}
					close(g)
				}
			}
		}
	}
	for _, s := range scripts {
		select {
		case <-s.Entered:
			select {
			case <-s.Exited:
			case <-time.After(5 * time.Second):
			}
		default:
		}
		s.Dead.Store(true)
	}
	sh.cl.D.ResetLog()
	sh.cl.D.Forget(token, sh.n)
	for _, nid := range c.cfg {
		node := sh.node(nid)
		if !waitFor(3*time.Second, func() bool { return routers(node) == 0 }) {
			fail("C18", "no router left", fmt.Sprintf("%d routers on node %d", routers(node), nid), "")
		}
	}
	// statistics
	lastExp := expSnaps[len(expSnaps)-1]
	class := "open"
	switch {
	case strings.Contains(lastExp, "e=inc"):
		class = "incomplete"
	case strings.Contains(lastExp, "e=ctx"):
		class = "ctx"
	case strings.Contains(lastExp, "d=1"):
		class = "done"
	}
	levels := map[string]bool{}
	hasErr, watchAfterDone := false, false
	for i, sn := range expSnaps {
		for _, f := range strings.Split(sn, ",") {
			if strings.HasPrefix(f, "l=") {
				levels[f] = true
			}
		}
		if i > 0 && i-1 < len(c.seq) && c.seq[i-1].kind == 'w' && strings.Contains(expSnaps[i-1], "d=1") {
			watchAfterDone = true
		}
	}
	for _, a := range c.seq {
		if a.kind == 'e' {
			hasErr = true
		}
	}
	sum.count("completion:" + class)
	sum.count("variant:" + c.method)
	sum.count("qf:" + c.qfKind)
	sum.count(fmt.Sprintf("levels-published:%d", len(levels)-1))
	if watchAfterDone {
		sum.count("watch-after-done")
	}
	sum.nontrivial(fmt.Sprintf("%v/%v/%v/%s/%s/%d/%v/%v/%v", c.stream(), info.PerNode, info.Custom, c.qfKind, class, len(levels), hasErr, hasCancel, watchAfterDone))
	sum.sample(caseLine + " => " + strings.Join(expSnaps, "|"))
}

var reSnapErr = regexp.MustCompile(`e=(inc|ctx):([0-9.]*):`)
var reSnapVal = regexp.MustCompile(`(t?v)=-?[0-9]+`)

// canonSnap sorts the node ids of the error list (the order in which two error arrivals
// that do not change the published state are consumed is not observable) and, for methods
// whose result type is Empty, reads every value as 0.
func canonSnap(s string, emptyOut, stream bool) string {
	s = reSnapErr.ReplaceAllStringFunc(s, func(m string) string {
		p := reSnapErr.FindStringSubmatch(m)
		if stream && p[1] == "ctx" {
			// whether a stream's error arrival was consumed before the context ended is not observable
			return "e=ctx:*:"
		}
		ids := strings.Split(p[2], ".")
		sort.Slice(ids, func(i, j int) bool { a, _ := strconv.Atoi(ids[i]); b, _ := strconv.Atoi(ids[j]); return a < b })
		return "e=" + p[1] + ":" + strings.Join(ids, ".") + ":"
	})
	if emptyOut {
		s = reSnapVal.ReplaceAllString(s, "$1=0")
	}
	return s
}
