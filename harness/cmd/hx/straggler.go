package main

import (
	"context"
	"fmt"
	"math/rand"
	"os"
	"strconv"
	"strings"
	"sync"
	"sync/atomic"
	"time"

	"verifhx/puppet"

	"github.com/relab/gorums"
	"github.com/relab/gorums/cmd/protoc-gen-gorums/dev"
	"google.golang.org/grpc"
)

// stragglerRound (C05 / C01): requests that are still queued for a slow node when their call returns.
// A manager with a send buffer; the last node does not read its stream for a while (its first handler keeps the
// connection's mutex), so the quorum calls of phase 1 — which return once the other nodes have answered — leave
// their requests for it in the stream window and then in the send queue.  The calls of phase 2, which need an answer
// from every node, are issued while the node is still held up; then it is let go and works through the backlog.  Every reply shown
// to a quorum function must carry the stamp of that very call: an answer to a request of a call of phase 1 must
// never reach a call of phase 2 (nothing of a finished call may be reused by the requests it left behind).
func stragglerRound(r *rand.Rand, sum *sumT, total *int64) {
	const n = 3
	// a fixed flow-control window: a node that does not read accepts 64 KiB and no more (gRPC's dynamic window
	// would otherwise grow with the traffic)
	sh, err := newShardSrv(n, []gorums.ServerOption{gorums.WithGRPCServerOptions(grpc.InitialWindowSize(65535), grpc.InitialConnWindowSize(65535))},
		gorums.WithSendBufferSize(64))
	if err != nil {
		fatal(err)
	}
	defer sh.close()
	gate := make(chan struct{})
	t0 := time.Now()
	sh.cl.D.KeepLog = false
	sh.cl.D.Default = func(server int, method, val string) *puppet.Script {
		s := puppet.NewScript()
		s.Action = puppet.Reply
		ser, _ := strconv.ParseInt(strings.TrimPrefix(puppet.Token(val), "s"), 10, 64)
		s.Value = ser*16 + int64(server)
		s.Release = "early"
		if os.Getenv("VERIF_DEBUG") != "" && server == n-1 {
			fmt.Fprintf(os.Stderr, "straggler-debug: %v node %d handles request of call %d (%d bytes)\n", time.Since(t0), server+1, ser, len(val))
		}
		if server == n-1 {
			s.Release = "late" // the receive loop of this connection waits for the handler
			s.Gate = gate
		}
		return s
	}
	bad := int64(0)
	check := func(ser int64, nid uint32, v int64, where string) {
		if v/16 != ser || v%16 != int64(nid-1) {
			if atomic.AddInt64(&bad, 1) <= 3 {
				sum.mismatch(Mismatch{Property: "C05", Case: fmt.Sprintf("straggler sendbuf=64 call=%d (phase-1 calls return while their requests to node %d are still queued)", ser, n),
					Expected: fmt.Sprintf("reply of call %d from node %d", ser, nid), Observed: fmt.Sprintf("reply stamped call=%d server=%d filed under node %d (%s)", v/16, v%16+1, nid, where)})
			}
		}
	}
	sh.qs.F = func(method, req string, replies map[uint32]int64) (int64, int, bool, bool) {
		ser, _ := strconv.ParseInt(strings.TrimPrefix(puppet.Token(req), "s"), 10, 64)
		need := 2
		if i := strings.Index(req, "|q"); i >= 0 {
			need, _ = strconv.Atoi(req[i+2 : i+3])
		}
		var first int64
		for nid, v := range replies {
			if os.Getenv("VERIF_DEBUG") != "" && nid == n {
				fmt.Fprintf(os.Stderr, "straggler-debug: call %d sees node %d stamp call=%d\n", ser, nid, v/16)
			}
			check(ser, nid, v, "quorum function")
			first = v
		}
		return first, len(replies), len(replies) >= need, true
	}
	pad := strings.Repeat("p", 4096)
	roundCtx, endRound := context.WithTimeout(context.Background(), 30*time.Second)
	defer endRound()
	var serial int64
	run := func(calls, goroutines, need int, timeout time.Duration, mode string) {
		var wg sync.WaitGroup
		for g := 0; g < goroutines; g++ {
			wg.Add(1)
			go func() {
				defer wg.Done()
				defer func() {
					if p := recover(); p != nil {
						sum.mismatch(Mismatch{Property: "C05", Case: "straggler", Expected: "calls return", Observed: fmt.Sprint("panic: ", p)})
					}
				}()
				for k := 0; k < calls/goroutines; k++ {
					atomic.AddInt64(total, 1)
					ser := atomic.AddInt64(&serial, 1)
					// one long-lived context for the whole round: a context that ends while its request is being written
					// makes the library reset the node's stream, which is not what this workload is about
					ctx := roundCtx
					done := make(chan struct{})
					go func() {
						defer close(done)
						defer func() { recover() }()
						p := pad
						switch mode {
						case "nopad":
							p = ""
						case "filler":
							p = strings.Repeat("f", 512<<10)
						}
						resp, err := sh.all.QuorumCall(ctx, &dev.Request{Value: fmt.Sprintf("s%d|q%d|%s", ser, need, p)})
						if err == nil && resp.GetResult()/16 != ser {
							check(ser, uint32(resp.GetResult()%16+1), resp.GetResult(), "quorum call result")
						}
					}()
					select {
					case <-done:
					case <-time.After(timeout + 5*time.Second):
						sum.count("straggler-call-stuck")
					}
					sum.count(fmt.Sprintf("straggler-phase-q%d", need))
				}
			}()
		}
		wg.Wait()
	}
	run(1, 1, 2, 8*time.Second, "nopad")  // the straggler's handler of this request keeps the connection's mutex: the node stops reading
	run(1, 1, 2, 8*time.Second, "filler") // the write of this request to the straggler does not complete: window and write quota are full
	run(32, 4, 2, 8*time.Second, "")      // phase 1: return after two answers; 32 x 4 KiB to a node that does not read
	ph2 := make(chan struct{})
	go func() { // phase 2: calls that need every node, issued while the straggler is still held up
		run(32, 32, 3, 8*time.Second, "nopad")
		close(ph2)
	}()
	time.Sleep(300 * time.Millisecond) // the calls of phase 2 are under way (their requests queued behind those of phase 1)
	if os.Getenv("VERIF_DEBUG") != "" {
		fmt.Fprintf(os.Stderr, "straggler-debug: %v gate opens\n", time.Since(t0))
	}
	close(gate) // the straggler proceeds and works through the backlog
	<-ph2
	_ = r
}
