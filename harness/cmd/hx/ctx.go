package main

// Engine ctx — "every call returns promptly once its context ends, whatever the nodes
// are doing" (C08).  Scenario = call type x node behaviour {healthy, down, handler never
// answers, peer not reading (blocked handler + large payloads so that the node's sender
// is stuck inside SendMsg)} x concurrent background traffic on the same nodes x instant
// of the context end {already ended, while queued / being written, while waiting}.
// Oracles: the call returns (or its future / correctable completes) within 2 s of the
// context end, and where it reports an error, errors.Is(err, ctx.Err()).
// The model statement behind it is in Props/C08.lean; this run is a test with a
// generous wall-clock bound and is labelled as such.

import (
	"context"
	"errors"
	"fmt"
	"math/rand"
	"strings"
	"sync"
	"time"

	"verifhx/puppet"

	"github.com/relab/gorums"
	"github.com/relab/gorums/cmd/protoc-gen-gorums/dev"
)

func init() { engines["ctx"] = ctxMain }

func ctxMain(args []string) {
	cf := commonFlags("ctx", args, nil)
	start := time.Now()
	sum := newSum("ctx", cf.seed, "scenarios = (call type in {rpc, quorum call, async, correctable, stream, multicast, unicast}) x (node behaviour in {healthy, down, silent handler, peer not reading}) x (background calls 0..8) x "+
		"(context end: already ended / after 0.2..2 ms / after 5..30 ms); distinct non-trivial = distinct (call type, behaviour, background?, instant class, outcome) tuples")
	r := rng(cf.seed, "ctx")
	seeds := make(chan int64, cf.count)
	for i := 0; i < cf.count; i++ {
		seeds <- r.Int63()
	}
	close(seeds)
	shards := cf.shards
	if shards > 6 {
		shards = 6
	}
	if shards > cf.count {
		shards = cf.count
	}
	var wg sync.WaitGroup
	var mu sync.Mutex
	n := 0
	for s := 0; s < shards; s++ {
		wg.Add(1)
		go func() {
			defer wg.Done()
			for seed := range seeds {
				if sum.tooMany() {
					continue
				}
				ctxScenario(rand.New(rand.NewSource(seed)), sum)
				mu.Lock()
				n++
				mu.Unlock()
			}
		}()
	}
	wg.Wait()
	if cf.replay == "" {
		k := 2
		if cf.tier == "thorough" {
			k = 20
		}
		for i := 0; i < k && !sum.tooMany(); i++ {
			afterCompletedStream(rand.New(rand.NewSource(cf.seed*1000+int64(i))), sum)
			n++
		}
	}
	sum.Cases = n
	sum.finish(start, cf.out)
}

// afterCompletedStream: a server-stream correctable call under a long-lived context completes through its
// quorum function (every node has sent one update); only then — 30 ms later, when the call's goroutine has long
// returned and removed its routers — do the servers stream further updates for it.  Those updates belong to a
// finished call and are dropped; calls with deadlines on the same nodes keep returning.  (This is not the known
// finding C09/stream-backpressure, which needs updates that arrive while the completed call's routers still
// exist, i.e. before its goroutine has returned.)
func afterCompletedStream(r *rand.Rand, sum *sumT) {
	sh, err := newShard(3)
	if err != nil {
		fatal(err)
	}
	defer func() { go sh.close() }()
	more := make(chan struct{})
	extra := 6 + r.Intn(10)
	sh.cl.D.KeepLog = false
	sh.cl.D.Default = func(server int, method, val string) *puppet.Script {
		s := puppet.NewScript()
		s.Action = puppet.Reply
		s.Release = "early"
		if puppet.Info[method].Kind == "stream" {
			s.Stream = []puppet.StreamStep{{Value: 1}}
			for i := 0; i < extra; i++ {
				s.Stream = append(s.Stream, puppet.StreamStep{Gate: more, Value: int64(2 + i)})
			}
		}
		return s
	}
	sh.qs.F = func(method, req string, replies map[uint32]int64) (int64, int, bool, bool) {
		return 0, len(replies), len(replies) >= 3, true
	}
	caseS := fmt.Sprintf("after-completed-stream extra-updates-per-node=%d", extra)
	session, endSession := context.WithCancel(context.Background())
	defer endSession()
	c := sh.all.CorrectableStream(session, &dev.Request{Value: "acs|0|x"})
	select {
	case <-c.Done():
	case <-time.After(3 * time.Second):
		sum.mismatch(Mismatch{Property: "C08", Case: caseS, Expected: "the stream call completes when its quorum function reports done", Observed: "not done after 3 s"})
		return
	}
	time.Sleep(30 * time.Millisecond)
	close(more) // the servers stream on for the completed call
	time.Sleep(50 * time.Millisecond)
	type resT struct {
		kind string
		late bool
	}
	kinds := []string{"rpc", "qc", "mcast", "rpc", "async"}
	res := make(chan resT, len(kinds))
	for i, kind := range kinds {
		go func(i int, kind string) {
			ctx, cancel := context.WithTimeout(context.Background(), 300*time.Millisecond)
			defer cancel()
			done := make(chan struct{})
			go func() {
				defer close(done)
				defer func() { recover() }()
				req := &dev.Request{Value: fmt.Sprintf("acs-after%d|0|x", i)}
				switch kind {
				case "rpc":
					sh.node(uint32(1+i%3)).GRPCCall(ctx, req)
				case "qc":
					sh.all.QuorumCall(ctx, req)
				case "async":
					sh.all.QuorumCallAsync(ctx, req).Get()
				case "mcast":
					sh.all.Multicast(ctx, req)
				}
			}()
			select {
			case <-done:
				res <- resT{kind, false}
			case <-time.After(300*time.Millisecond + 2*time.Second):
				res <- resT{kind, true}
			}
		}(i, kind)
	}
	var late []string
	for range kinds {
		if x := <-res; x.late {
			late = append(late, x.kind)
		}
	}
	if len(late) > 0 {
		w := diagnose()
		sum.mismatch(Mismatch{Property: "C08", Case: caseS, Expected: "calls with a 300 ms deadline on the same nodes return within 2 s of their deadline", Observed: fmt.Sprintf("still running: %v (goroutine signature: %s)", late, w.id),
			Detail: strings.Join(signatures(w.dump), "; ")})
	}
	sum.count("kind:after-completed-stream")
	sum.nontrivial(fmt.Sprintf("after-completed-stream/%d/%v", extra, len(late) > 0))
	sum.sample(caseS + fmt.Sprintf(" => late calls: %v", late))
}

func ctxScenario(r *rand.Rand, sum *sumT) {
	behaviour := []string{"healthy", "down", "silent", "notreading"}[r.Intn(4)]
	kind := []string{"rpc", "qc", "async", "corr", "stream", "mcast", "ucast", "mcast-nsw"}[r.Intn(8)]
	bgN := []int{0, 0, 2, 8}[r.Intn(4)]
	if behaviour == "notreading" && bgN == 0 {
		bgN = 4
	}
	instant := r.Intn(3)
	sh, err := newShard(3, gorums.WithSendBufferSize([]uint{0, 0, 2}[r.Intn(3)]))
	if err != nil {
		fatal(err)
	}
	defer func() { go sh.close() }()
	victim := 2 // server index with the behaviour; the other two are healthy
	release := make(chan struct{})
	sh.cl.D.KeepLog = false
	sh.cl.D.Default = func(server int, method, val string) *puppet.Script {
		s := puppet.NewScript()
		s.Action = puppet.Reply
		if server == victim && (behaviour == "silent" || behaviour == "notreading") {
			s.Gate = release // never answers (and, not releasing, keeps the server from reading further requests)
		} else {
			s.Release = "early"
		}
		if puppet.Info[method].Kind == "stream" {
			s.Stream = []puppet.StreamStep{{Value: 1}}
		}
		return s
	}
	sh.qs.F = func(method, req string, replies map[uint32]int64) (int64, int, bool, bool) {
		return 0, len(replies), len(replies) >= 3, true // needs the victim too
	}
	if behaviour == "down" {
		sh.cl.Stop(victim)
		time.Sleep(5 * time.Millisecond)
	}
	// background traffic with long deadlines; for "notreading" with payloads that exhaust flow control
	var bg sync.WaitGroup
	bgCtx, bgCancel := context.WithTimeout(context.Background(), 6*time.Second)
	defer bgCancel()
	pad := ""
	if behaviour == "notreading" {
		pad = strings.Repeat("p", 48*1024)
	}
	for i := 0; i < bgN; i++ {
		bg.Add(1)
		go func(i int) {
			defer bg.Done()
			defer func() { recover() }()
			sh.all.QuorumCall(bgCtx, &dev.Request{Value: fmt.Sprintf("bg%d|%s", i, pad)})
		}(i)
	}
	if bgN > 0 {
		time.Sleep(time.Duration(1+r.Intn(5)) * time.Millisecond)
	}
	// the call under test (every other one with a context that is cancelled with a cause)
	ctx, cancel := newCancelCtx(r.Intn(2) == 1)
	var ends time.Time
	var endMu sync.Mutex
	end := func() {
		endMu.Lock()
		if ends.IsZero() {
			ends = time.Now()
		}
		endMu.Unlock()
		cancel()
	}
	var d time.Duration
	switch instant {
	case 0:
		end()
	case 1:
		d = time.Duration(200+r.Intn(1800)) * time.Microsecond
	default:
		d = time.Duration(5+r.Intn(25)) * time.Millisecond
	}
	if d > 0 {
		time.AfterFunc(d, end)
	}
	req := &dev.Request{Value: "t|" + kind}
	type resT struct {
		err error
		p   string
	}
	resCh := make(chan resT, 1)
	go func() {
		var err error
		defer func() {
			if p := recover(); p != nil {
				resCh <- resT{p: fmt.Sprint(p)}
				return
			}
			resCh <- resT{err: err}
		}()
		node := sh.node(uint32(victim + 1))
		switch kind {
		case "rpc":
			_, err = node.GRPCCall(ctx, req)
		case "qc":
			_, err = sh.all.QuorumCall(ctx, req)
		case "async":
			_, err = sh.all.QuorumCallAsync(ctx, req).Get()
		case "corr":
			c := sh.all.Correctable(ctx, req)
			<-c.Done()
			_, _, err = c.Get()
		case "stream":
			c := sh.all.CorrectableStream(ctx, req)
			<-c.Done()
			_, _, err = c.Get()
		case "mcast":
			sh.all.Multicast(ctx, req)
		case "mcast-nsw":
			sh.all.Multicast(ctx, req, gorums.WithNoSendWaiting())
		case "ucast":
			node.Unicast(ctx, req)
		}
	}()
	caseS := fmt.Sprintf("ctx kind=%s behaviour=%s background=%d instant=%d (after %v)", kind, behaviour, bgN, instant, d)
	outcome := "returned"
	select {
	case res := <-resCh:
		endMu.Lock()
		ended := !ends.IsZero()
		endMu.Unlock()
		switch {
		case res.p != "":
			outcome = "panic"
			sum.mismatch(Mismatch{Property: "C08", Case: caseS, Expected: "call returns", Observed: "panic: " + res.p})
		case res.err != nil && ended:
			if !errors.Is(res.err, context.Canceled) {
				txt := strings.ReplaceAll(res.err.Error(), "\n", "/")
				if errors.Is(res.err, gorums.Incomplete) && strings.Contains(txt, "context canceled") {
					// every outstanding node answered locally with the context's own error before the loop noticed
					sum.known("C08:ctx-end-reported-as-incomplete")
					outcome = "incomplete-of-ctx-errors"
				} else if behaviour == "down" && (strings.Contains(txt, "Unavailable") || strings.Contains(txt, "stream is down") || errors.Is(res.err, gorums.Incomplete)) {
					outcome = "node-error-first" // the node's failure was reported before the context ended
				} else if errors.Is(res.err, gorums.Incomplete) {
					outcome = "incomplete-before-ctx"
				} else {
					sum.mismatch(Mismatch{Property: "C08", Case: caseS, Expected: "errors.Is(err, context.Canceled)", Observed: txt})
				}
			} else {
				outcome = "ctx-error"
			}
		case res.err != nil:
			outcome = "error-before-ctx-end"
		}
	case <-time.After(d + 2*time.Second):
		w := diagnose()
		if w.id != "" {
			sum.known("C09:" + w.id)
			outcome = "known-wedge"
		} else {
			outcome = "late"
			sum.mismatch(Mismatch{Property: "C08", Case: caseS, Expected: "the call returns within 2 s of its context end", Observed: "still running", Detail: strings.Join(signatures(w.dump), "; ")})
		}
	}
	close(release)
	bgCancel()
	bgDone := make(chan struct{})
	go func() { bg.Wait(); close(bgDone) }()
	select {
	case <-bgDone:
	case <-time.After(3 * time.Second):
		if w := diagnose(); w.id != "" {
			sum.known("C09:" + w.id)
		} else {
			sum.mismatch(Mismatch{Property: "C08", Case: caseS + " (background calls)", Expected: "background calls return within 3 s of their context end", Observed: "still running", Detail: strings.Join(signatures(w.dump), "; ")})
		}
	}
	sum.count("kind:" + kind)
	sum.count("behaviour:" + behaviour)
	sum.count("outcome:" + outcome)
	sum.nontrivial(fmt.Sprintf("%s/%s/%v/%d/%s", kind, behaviour, bgN > 0, instant, outcome))
	sum.sample(caseS + " => " + outcome)
}
