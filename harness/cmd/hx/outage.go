package main

import (
	"context"
	"fmt"
	"time"

	"verifhx/puppet"

	"github.com/relab/gorums"
	"github.com/relab/gorums/cmd/protoc-gen-gorums/dev"
	"google.golang.org/grpc"
	"google.golang.org/grpc/backoff"
	"google.golang.org/grpc/credentials/insecure"
)

// outageScenario (C10: "outages of any length and every back-off configuration"): a manager with a short back-off
// (base 30 ms, at most 100 ms), a node that had been connected, an outage of several seconds with calls being issued
// all along, then the server listens again.  Every layer that re-establishes the connection is governed by the
// configured back-off, so the node must be in use again shortly after it listens again — not after a delay that has
// grown with the length of the outage.
func outageScenario(sum *sumT) int {
	cl, err := puppet.NewCluster(1)
	if err != nil {
		fatal(err)
	}
	defer cl.Close()
	cl.D.KeepLog = false
	cl.D.Default = func(server int, method, val string) *puppet.Script {
		s := puppet.NewScript()
		s.Action = puppet.Reply
		s.Release = "early"
		return s
	}
	mgr := dev.NewManager(gorums.WithDialTimeout(time.Second),
		gorums.WithBackoff(backoff.Config{BaseDelay: 30 * time.Millisecond, Multiplier: 1.5, Jitter: 0.1, MaxDelay: 100 * time.Millisecond}),
		gorums.WithGrpcDialOptions(grpc.WithTransportCredentials(insecure.NewCredentials())))
	defer func() { go mgr.Close() }()
	qs := &puppet.QSpec{}
	qs.F = func(method, req string, replies map[uint32]int64) (int64, int, bool, bool) {
		return 0, len(replies), true, true
	}
	cfg, err := mgr.NewConfiguration(qs, gorums.WithNodeMap(map[string]uint32{cl.Addrs[0]: 1}))
	if err != nil {
		sum.count("outage:setup-failed")
		return 0
	}
	node := cfg.Nodes()[0]
	if !waitFor(10*time.Second, func() bool { return probe(node, 500*time.Millisecond) }) {
		sum.count("outage:never-healthy")
		return 0
	}
	outage := 6500 * time.Millisecond // between two attempts of a re-dialler that follows gRPC's default back-off (1 s x 1.6^k): its next attempt would come 0.9 s or more after the restart
	cl.Stop(0)
	down := time.Now()
	for time.Since(down) < outage { // calls keep being issued while the node is away
		probe(node, 200*time.Millisecond)
		time.Sleep(100 * time.Millisecond)
	}
	if err := cl.Restart(0); err != nil {
		sum.count("outage:restart-failed")
		return 0
	}
	up := time.Now()
	ok := waitFor(5*time.Second, func() bool { return probe(node, 300*time.Millisecond) })
	lag := time.Since(up)
	sum.nontrivial("outage/short-backoff")
	if !ok || lag > 700*time.Millisecond {
		if w := diagnose(); w.id != "" {
			sum.known("C09:" + w.id)
			return 1
		}
		obs := fmt.Sprintf("first successful call %v after the server listened again", lag.Round(10*time.Millisecond))
		if !ok {
			obs = "no successful call within 5 s of the restart"
		}
		sum.mismatch(Mismatch{Property: "C10", Case: "outage back-off=30ms..100ms outage=6.5s node-state=was-connected calls-during-outage=yes",
			Expected: "the node is used again within 0.7 s of listening again (every re-connecting layer follows the configured back-off of at most 100 ms)", Observed: obs})
	} else {
		sum.count("outage:back-within-" + lag.Round(100*time.Millisecond).String())
	}
	_ = context.Background
	return 1
}
