// Package puppet provides gated "puppet" servers for the zorums test service
// (package cmd/protoc-gen-gorums/dev) and a director that scripts, per call and
// per server, what a handler does and when.  All engines of the harness drive
// the real gorums client code against these servers over loopback gRPC.
package puppet

import (
	"context"
	"errors"
	"fmt"
	"net"
	"os"
	"runtime"
	"strings"
	"sync"
	"sync/atomic"
	"time"

	"github.com/relab/gorums"
	"github.com/relab/gorums/cmd/protoc-gen-gorums/dev"
	"google.golang.org/grpc/codes"
	"google.golang.org/grpc/metadata"
	"google.golang.org/grpc/status"
)

type Action int

const (
	Reply  Action = iota // return Value
	Fail                 // return a status error (Code, Msg) — or a plain error if PlainErr
	Silent               // never answer (until the connection ends or teardown)
)

// StreamStep is one gated send of a server-stream handler.
type StreamStep struct {
	Gate  chan struct{}
	Value int64
}

// Script says what one handler invocation does.
type Script struct {
	Gate      chan struct{} // nil: proceed at once; otherwise wait until closed
	Action    Action
	Value     int64
	Code      codes.Code
	Msg       string
	PlainErr  bool
	Release   string // "", "early", "twice", "helper", "late" (after the gate, before returning)
	Stream    []StreamStep
	EndGate   chan struct{} // stream handlers: waited for after the last step, before the handler ends
	StreamErr bool          // stream handler ends with the Fail status instead of nil

	Entered chan struct{} // closed at handler entry
	Exited  chan struct{} // closed when the handler returns
	// observations
	GotValue string
	Conn     int
	Serial   int
	SendErrs int
	Dead     atomic.Bool // set when the case that registered the script is over
}

func NewScript() *Script {
	return &Script{Entered: make(chan struct{}), Exited: make(chan struct{})}
}

// Event is one observation made by a handler.
type Event struct {
	Server int
	Conn   int // identity of the client connection (stream context), per director
	Serial int // arrival serial on that connection, taken at handler entry
	Method string
	Value  string
	Phase  string // enter | release | exit
	Seq    int    // global sequence number
}

type key struct {
	server int
	token  string
}

// Director holds the scripts and the observation log.
type Director struct {
	mu         sync.Mutex
	byToken    map[key]*Script
	fifo       map[key][]*Script // token field holds the method name
	conns      map[context.Context]int
	serials    map[int]int
	Log        []Event
	KeepLog    bool
	Quit       chan struct{} // closed at teardown
	Default    func(server int, method, val string) *Script
	MD         map[int]map[string][]string // conn -> incoming metadata (filled by the connect callback)
	Connects   map[int]int                 // server -> number of connect callbacks
	ConnServer map[int]int                 // conn -> server
	Callbacks  map[int]int                 // conn -> number of connect callbacks seen for that stream
}

func NewDirector() *Director {
	return &Director{
		byToken: map[key]*Script{}, fifo: map[key][]*Script{}, conns: map[context.Context]int{},
		serials: map[int]int{}, Quit: make(chan struct{}), KeepLog: true,
		MD: map[int]map[string][]string{}, Connects: map[int]int{}, ConnServer: map[int]int{}, Callbacks: map[int]int{},
	}
}

// Token extracts the call token from a request value "token|…".
func Token(val string) string {
	if i := strings.IndexByte(val, '|'); i >= 0 {
		return val[:i]
	}
	return val
}

// Expect registers the script for the request with the given token at a server.
func (d *Director) Expect(server int, token string, s *Script) {
	d.mu.Lock()
	d.byToken[key{server, token}] = s
	d.mu.Unlock()
}

// ExpectNext registers a script for the next otherwise unscripted request of a method at a server.
func (d *Director) ExpectNext(server int, method string, s *Script) {
	d.mu.Lock()
	k := key{server, method}
	d.fifo[k] = append(d.fifo[k], s)
	d.mu.Unlock()
}

// Forget drops the token scripts of a finished case.
func (d *Director) Forget(token string, servers int) {
	d.mu.Lock()
	for i := 0; i < servers; i++ {
		delete(d.byToken, key{i, token})
	}
	d.mu.Unlock()
}

func (d *Director) ConnID(ctx context.Context) int {
	d.mu.Lock()
	defer d.mu.Unlock()
	return d.connIDLocked(ctx)
}

func (d *Director) connIDLocked(ctx context.Context) int {
	id, ok := d.conns[ctx]
	if !ok {
		id = len(d.conns) + 1
		d.conns[ctx] = id
	}
	return id
}

func (d *Director) event(e Event) {
	if d.KeepLog {
		e.Seq = len(d.Log)
		d.Log = append(d.Log, e)
	}
}

// Streams returns, per accepted stream (connection id), the server, the incoming metadata and the number of
// connect callbacks; streams on which a handler ran without any callback appear with count 0.
func (d *Director) Streams() map[int]struct {
	Server    int
	MD        map[string][]string
	Callbacks int
} {
	d.mu.Lock()
	defer d.mu.Unlock()
	out := map[int]struct {
		Server    int
		MD        map[string][]string
		Callbacks int
	}{}
	for _, id := range d.conns {
		out[id] = struct {
			Server    int
			MD        map[string][]string
			Callbacks int
		}{d.ConnServer[id], d.MD[id], d.Callbacks[id]}
	}
	return out
}

// ConnectCount returns how many client streams server i has accepted so far.
func (d *Director) ConnectCount(server int) int {
	d.mu.Lock()
	defer d.mu.Unlock()
	return d.Connects[server]
}

// Events returns a copy of the log.
func (d *Director) Events() []Event {
	d.mu.Lock()
	defer d.mu.Unlock()
	return append([]Event(nil), d.Log...)
}

func (d *Director) ResetLog() {
	d.mu.Lock()
	d.Log = nil
	d.mu.Unlock()
}

func (d *Director) enter(server int, ctx gorums.ServerCtx, method, val string) *Script {
	d.mu.Lock()
	conn := d.connIDLocked(ctx.Context)
	d.serials[conn]++
	serial := d.serials[conn]
	var s *Script
	tok := Token(val)
	if x, ok := d.byToken[key{server, tok}]; ok && val != "" {
		s = x
	} else {
		q := d.fifo[key{server, method}]
		for len(q) > 0 && q[0].Dead.Load() {
			q = q[1:]
		}
		if len(q) > 0 {
			s, q = q[0], q[1:]
		}
		d.fifo[key{server, method}] = q
	}
	d.event(Event{Server: server, Conn: conn, Serial: serial, Method: method, Value: val, Phase: "enter"})
	d.mu.Unlock()
	if s == nil {
		if d.Default != nil {
			s = d.Default(server, method, val)
		}
		if s == nil {
			s = NewScript()
			s.Action = Reply
		}
	}
	s.GotValue, s.Conn, s.Serial = val, conn, serial
	select {
	case <-s.Entered:
		// a script entered twice: a handler was started twice for one request
		d.mu.Lock()
		d.event(Event{Server: server, Conn: conn, Serial: serial, Method: method, Value: val, Phase: "DUPLICATE"})
		d.mu.Unlock()
		s2 := NewScript()
		s2.Action = Reply
		close(s2.Entered)
		return s2
	default:
		close(s.Entered)
	}
	return s
}

func (d *Director) note(server int, s *Script, method, phase string) {
	d.mu.Lock()
	d.event(Event{Server: server, Conn: s.Conn, Serial: s.Serial, Method: method, Value: s.GotValue, Phase: phase})
	d.mu.Unlock()
}

// Server is one puppet server; it implements dev.ZorumsService (puppet_gen.go).
type Server struct {
	Idx int
	D   *Director
}

var stormMu sync.Mutex

func (p *Server) release(ctx *gorums.ServerCtx, s *Script, method string, when string) {
	atEntry := s.Release == "early" || s.Release == "twice" || s.Release == "helper" || s.Release == "storm"
	if (when == "entry" && !atEntry) || (when == "late" && s.Release != "late") {
		return
	}
	switch s.Release {
	case "early", "late":
		p.D.note(p.Idx, s, method, "release")
		ctx.Release()
	case "twice":
		p.D.note(p.Idx, s, method, "release")
		ctx.Release()
		ctx.Release()
	case "helper":
		p.D.note(p.Idx, s, method, "release")
		done := make(chan struct{})
		go func() { ctx.Release(); ctx.Release(); close(done) }()
		<-done
	case "storm":
		// several goroutines release at the same moment, racing with each other (and, when the
		// handler is let go at once, with the implicit release at return)
		p.D.note(p.Idx, s, method, "release")
		// (a spin barrier rather than a channel: the releases must really happen at the same instant on
		// different cores for a check-then-act in Release to be caught)
		// one storm at a time in the process: the spinning goroutines of several simultaneous storms would
		// occupy every core and starve everything else
		const n = 8
		stormMu.Lock()
		var ready, fire, gone int32
		for i := 0; i < n; i++ {
			go func() {
				atomic.AddInt32(&ready, 1)
				for atomic.LoadInt32(&fire) == 0 {
				}
				ctx.Release()
				atomic.AddInt32(&gone, 1)
			}()
		}
		for atomic.LoadInt32(&ready) < n {
			runtime.Gosched()
		}
		atomic.StoreInt32(&fire, 1)
		for atomic.LoadInt32(&gone) < n {
			runtime.Gosched()
		}
		stormMu.Unlock()
	}
}

func (p *Server) wait(ctx context.Context, gate chan struct{}) error {
	if gate == nil {
		return nil
	}
	select {
	case <-gate:
		return nil
	case <-ctx.Done():
		return ctx.Err()
	case <-p.D.Quit:
		return status.Error(codes.Aborted, "teardown")
	}
}

func (s *Script) failure() error {
	if s.PlainErr {
		return errors.New(s.Msg)
	}
	return status.Error(s.Code, s.Msg)
}

func (p *Server) unary(ctx gorums.ServerCtx, method, val string) (int64, error) {
	s := p.D.enter(p.Idx, ctx, method, val)
	defer func() { p.D.note(p.Idx, s, method, "exit"); closeOnce(s.Exited) }()
	p.release(&ctx, s, method, "entry")
	if err := p.wait(ctx, s.Gate); err != nil {
		return 0, err
	}
	p.release(&ctx, s, method, "late")
	switch s.Action {
	case Reply:
		return s.Value, nil
	case Fail:
		return 0, s.failure()
	default:
		select {
		case <-ctx.Done():
			return 0, ctx.Err()
		case <-p.D.Quit:
			return 0, status.Error(codes.Aborted, "teardown")
		}
	}
}

func (p *Server) oneway(ctx gorums.ServerCtx, method, val string) {
	s := p.D.enter(p.Idx, ctx, method, val)
	defer func() { p.D.note(p.Idx, s, method, "exit"); closeOnce(s.Exited) }()
	p.release(&ctx, s, method, "entry")
	_ = p.wait(ctx, s.Gate)
	p.release(&ctx, s, method, "late")
	if s.Action == Silent {
		select {
		case <-ctx.Done():
		case <-p.D.Quit:
		}
	}
}

func (p *Server) stream(ctx gorums.ServerCtx, method, val string, send func(int64) error) error {
	s := p.D.enter(p.Idx, ctx, method, val)
	defer func() { p.D.note(p.Idx, s, method, "exit"); closeOnce(s.Exited) }()
	p.release(&ctx, s, method, "entry")
	if err := p.wait(ctx, s.Gate); err != nil {
		return err
	}
	for _, st := range s.Stream {
		if err := p.wait(ctx, st.Gate); err != nil {
			return err
		}
		if err := send(st.Value); err != nil {
			s.SendErrs++
			return err
		}
	}
	if err := p.wait(ctx, s.EndGate); err != nil {
		return err
	}
	p.release(&ctx, s, method, "late")
	switch s.Action {
	case Fail:
		return s.failure()
	case Silent:
		select {
		case <-ctx.Done():
			return ctx.Err()
		case <-p.D.Quit:
			return status.Error(codes.Aborted, "teardown")
		}
	}
	return nil
}

func closeOnce(c chan struct{}) {
	select {
	case <-c:
	default:
		close(c)
	}
}

// Cluster is a set of puppet servers on loopback TCP.
type Cluster struct {
	N       int
	D       *Director
	Addrs   []string
	servers []*gorums.Server
	lis     []net.Listener
	mu      sync.Mutex
	opts    []gorums.ServerOption
}

// listenLocal listens on a loopback port below the kernel's ephemeral range (32768-60999), taken from a
// process-wide cursor that only moves forward.  Servers are stopped and restarted on the same port; a port the
// kernel hands out for ":0" could be given to another listener in between, which makes Restart fail in long runs.
var portCursor = int32(21000 + (os.Getpid()*997)%10000)

func listenLocal() (net.Listener, error) {
	var err error
	for k := 0; k < 4000; k++ {
		p := atomic.AddInt32(&portCursor, 1)
		if p >= 32000 {
			atomic.StoreInt32(&portCursor, 21000)
			continue
		}
		var l net.Listener
		l, err = net.Listen("tcp", fmt.Sprintf("127.0.0.1:%d", p))
		if err == nil {
			return l, nil
		}
	}
	return nil, err
}

func NewCluster(n int, opts ...gorums.ServerOption) (*Cluster, error) {
	c := &Cluster{N: n, D: NewDirector(), Addrs: make([]string, n), servers: make([]*gorums.Server, n), lis: make([]net.Listener, n), opts: opts}
	for i := 0; i < n; i++ {
		l, err := listenLocal()
		if err != nil {
			return nil, err
		}
		c.Addrs[i] = l.Addr().String()
		c.start(i, l)
	}
	return c, nil
}

// trackListener remembers the connections it accepts, so that the harness can drop them while the server keeps
// listening (a connection reset with a reachable node: middlebox drop, NAT timeout).
type trackListener struct {
	net.Listener
	mu    sync.Mutex
	conns []net.Conn
}

func (t *trackListener) Accept() (net.Conn, error) {
	c, err := t.Listener.Accept()
	if err == nil {
		t.mu.Lock()
		t.conns = append(t.conns, c)
		t.mu.Unlock()
	}
	return c, err
}

// DropConns closes every connection server i has accepted so far; the server keeps listening.
func (c *Cluster) DropConns(i int) int {
	c.mu.Lock()
	l, _ := c.lis[i].(*trackListener)
	c.mu.Unlock()
	if l == nil {
		return 0
	}
	l.mu.Lock()
	conns := l.conns
	l.conns = nil
	l.mu.Unlock()
	for _, cn := range conns {
		_ = cn.Close()
	}
	return len(conns)
}

func (c *Cluster) start(i int, l net.Listener) {
	l = &trackListener{Listener: l}
	idx := i
	opts := append([]gorums.ServerOption{gorums.WithConnectCallback(func(ctx context.Context) {
		c.D.mu.Lock()
		c.D.Connects[idx]++
		conn := c.D.connIDLocked(ctx)
		md, _ := metadata.FromIncomingContext(ctx)
		c.D.MD[conn] = md.Copy()
		c.D.ConnServer[conn] = idx
		c.D.Callbacks[conn]++
		c.D.mu.Unlock()
	})}, c.opts...)
	srv := gorums.NewServer(opts...)
	dev.RegisterZorumsServiceServer(srv, &Server{Idx: i, D: c.D})
	c.mu.Lock()
	c.servers[i], c.lis[i] = srv, l
	c.mu.Unlock()
	go func() { _ = srv.Serve(l) }()
}

// Stop stops server i immediately (connections are reset).
func (c *Cluster) Stop(i int) {
	c.mu.Lock()
	srv := c.servers[i]
	c.servers[i] = nil
	c.mu.Unlock()
	if srv != nil {
		srv.Stop()
	}
}

// Restart listens again on the same address.
func (c *Cluster) Restart(i int) error {
	var l net.Listener
	var err error
	for k := 0; k < 50; k++ {
		l, err = net.Listen("tcp", c.Addrs[i])
		if err == nil {
			break
		}
		time.Sleep(20 * time.Millisecond)
	}
	if err != nil {
		return fmt.Errorf("restart %d: %w", i, err)
	}
	c.start(i, l)
	return nil
}

func (c *Cluster) Close() {
	closeOnce(c.D.Quit)
	for i := range c.servers {
		c.Stop(i)
	}
}
