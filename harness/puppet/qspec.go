package puppet

import (
	"sort"
	"strconv"
	"sync"
	"sync/atomic"

	"github.com/relab/gorums/cmd/protoc-gen-gorums/dev"
	"google.golang.org/protobuf/types/known/emptypb"
)

// QFCall is one logged invocation of a quorum function.
type QFCall struct {
	Method  string
	Req     string
	SameReq bool // the request object is the caller's original one (pointer identity)
	Replies map[uint32]int64
	Overlap bool // another invocation of this QSpec was in progress
	Value   int64
	Level   int
	Quorum  bool
}

// QFunc is the table-driven quorum function: has=false means "return a nil value".
type QFunc func(method, req string, replies map[uint32]int64) (v int64, level int, quorum bool, has bool)

// QSpec implements dev.QuorumSpec (qspec_gen.go) on top of one QFunc.
type QSpec struct {
	F        QFunc
	Orig     any // the caller's original request object, for the identity check
	Delay    func()
	mu       sync.Mutex
	log      []QFCall
	inflight int32
}

func (s *QSpec) call(method string, in any, req string, replies map[uint32]int64) (int64, int, bool, bool) {
	overlap := atomic.AddInt32(&s.inflight, 1) > 1
	defer atomic.AddInt32(&s.inflight, -1)
	if s.Delay != nil {
		s.Delay()
	}
	v, lvl, q, has := s.F(method, req, replies)
	s.mu.Lock()
	s.log = append(s.log, QFCall{Method: method, Req: req, SameReq: s.Orig == nil || in == s.Orig, Replies: replies, Overlap: overlap, Value: v, Level: lvl, Quorum: q})
	s.mu.Unlock()
	return v, lvl, q, has
}

func (s *QSpec) Log() []QFCall {
	s.mu.Lock()
	defer s.mu.Unlock()
	return append([]QFCall(nil), s.log...)
}

func (s *QSpec) LogLen() int {
	s.mu.Lock()
	defer s.mu.Unlock()
	return len(s.log)
}

func (s *QSpec) Reset(orig any) {
	s.mu.Lock()
	s.log, s.Orig = nil, orig
	s.mu.Unlock()
}

func respVals(r map[uint32]*dev.Response) map[uint32]int64 {
	m := make(map[uint32]int64, len(r))
	for k, v := range r {
		m[k] = v.GetResult()
	}
	return m
}

func emptyVals(r map[uint32]*emptypb.Empty) map[uint32]int64 {
	m := make(map[uint32]int64, len(r))
	for k := range r {
		m[k] = 0
	}
	return m
}

func myVal(v int64) string { return "my:" + strconv.FormatInt(v, 10) }

// SortedKeys returns the node IDs of a reply map in increasing order.
func SortedKeys(m map[uint32]int64) []uint32 {
	ks := make([]uint32, 0, len(m))
	for k := range m {
		ks = append(ks, k)
	}
	sort.Slice(ks, func(i, j int) bool { return ks[i] < ks[j] })
	return ks
}
